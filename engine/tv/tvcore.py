"""Translation validation core: compile with the real compiler, encode the emitted circuit,
compare with the reference semantics for ALL inputs (z3), replay counterexamples natively."""
import json, os, random, time
import z3
import enc, ref, solve
from lang import render, size_of, is_arr
from drv import Circuit


def concrete(term, pairs):
    """substitute concrete inputs and fold -> python int / bool"""
    t = z3.simplify(z3.substitute(term, *pairs)) if pairs else z3.simplify(term)
    if z3.is_bv_value(t):
        return t.as_long()
    if z3.is_true(t):
        return True
    if z3.is_false(t):
        return False
    raise ValueError("not concrete: %s" % t.sexpr()[:200])


def input_pairs(inputs, parties):
    pairs = []
    for p, n in enumerate(inputs.sizes):
        if n == 0:
            continue
        v = 0
        for b in parties[p]:
            v = (v << 1) | int(b)
        pairs.append((inputs.bv[p], z3.BitVecVal(v, n)))
    return pairs


def rand_parties(rng, sizes):
    out = []
    for n in sizes:
        mode = rng.random()
        if mode < 0.15:
            out.append([0] * n)
        elif mode < 0.3:
            out.append([1] * n)
        else:
            out.append([rng.randint(0, 1) for _ in range(n)])
    return out


def validate_encoder(drv, cid, circ, inputs, outs, rng, n=4):
    """Serval-style translator test: the formula and the real evaluator must agree on random
    vectors. Returns number of vectors compared; raises on disagreement."""
    allout = enc.bits_to_bv(outs)
    for _ in range(n):
        parties = rand_parties(rng, inputs.sizes)
        real = drv.eval(cid, parties)
        if real is None:
            raise RuntimeError("real eval failed during encoder validation")
        got = concrete(allout, input_pairs(inputs, parties))
        want = 0
        for b in real:
            want = (want << 1) | b
        if got != want:
            raise RuntimeError("ENCODER MISMATCH (formula vs real eval)")
    return n


class Finding:
    def __init__(self, kind, detail):
        self.kind, self.detail = kind, detail

    def as_dict(self):
        return {"kind": self.kind, **self.detail}


def bits_str(parties):
    return ["".join(str(b) for b in p) for p in parties]


def analyze(drv, prog, fn="main", dedup=True, consts="-", const_values=None, cap=20.0, stats=None,
            rng=None, queries=("value", "panic", "loc"), vectors=4, extra_assume=None, keep=False,
            src=None, use_kissat=True):
    """Compile `prog` with the real compiler and compare with the reference for all inputs.

    Returns dict: status in {ok, rejected, compile_error, compiler_panic, shape, timeout},
    verdicts {query: unsat|sat|unknown}, findings [Finding], plus bookkeeping."""
    stats = stats if stats is not None else solve.Stats()
    rng = rng or random.Random(1)
    if src is None:
        src = render(prog)
    res = {"src": src, "dedup": dedup, "verdicts": {}, "findings": [], "status": "ok", "gates": 0}
    t0 = time.time()
    r = drv.compile(src, dedup=dedup, consts=consts)
    res["compile_s"] = time.time() - t0
    if r[0] != "ok":
        if r[0] == "err":
            res["status"] = "rejected" if r[1] in ("scan", "parse", "type") else "compile_error"
            res["errors"] = [(m, s, k) for m, s, k in r[2]]
            res["phase"] = r[1]
        elif r[0] == "panic":
            res["status"] = "compiler_panic"
            res["panic"] = r[1]
        else:
            res["status"] = r[0]
        return res
    _, cid, circ, validity, ptypes, rtype, ands = r
    res["gates"] = len(circ.gates)
    res["ands"] = ands
    res["cid"] = cid
    try:
        f = prog.fn(fn)
        exp_sizes = ref.expected_party_sizes(prog, fn)
        exp_out = enc.PANIC_BITS + size_of(f.ret)
        shape_problems = []
        if validity != "valid":
            shape_problems.append("validate() says %s" % validity)
        if list(circ.inputs) != exp_sizes:
            shape_problems.append("parties %s, expected %s" % (circ.inputs, exp_sizes))
        if len(circ.outputs) != exp_out:
            shape_problems.append("%d output bits, expected %d" % (len(circ.outputs), exp_out))
        if shape_problems:
            res["status"] = "shape"
            res["findings"].append(Finding("shape", {"problems": shape_problems}))
            return res
        inputs = enc.Inputs(circ.inputs)
        outs = enc.encode_ssa(circ, inputs)
        res["vectors_validated"] = validate_encoder(drv, cid, circ, inputs, outs, rng, vectors)
        if keep:
            res["_circ"], res["_inputs"], res["_outs"] = circ, inputs, outs
        has_c, rec_c, val_bits = enc.split_panic(outs)
        it = ref.Interp(prog, const_values)
        args, assume = ref.param_values(prog, fn, inputs.bv)
        if extra_assume is not None:
            assume = assume + extra_assume(args)
        value = it.run_main(fn, args)
        out_bv = enc.bits_to_bv(val_bits)
        if out_bv is not None:
            val_c = ref.decode(f.ret, out_bv)
            val_eq = ref.sem_eq(f.ret, val_c, value)
        else:
            val_eq = z3.BoolVal(True)
        rec_r = it.record_term()
        base = list(assume) + [z3.Not(it.dontcare)]
        qs = {
            "value": [z3.Not(it.panicked), z3.Or(has_c, z3.Not(val_eq))],
            "panic": [has_c != it.panicked],
            "loc": [it.panicked, has_c, z3.Not(it.amb), rec_c != rec_r],
        }
        res["sites"] = len(it.sites) - 1
        ref_out = ref.encode(f.ret, value)
        for q in queries:
            verdict, model, dt, backend = solve.decide(base + qs[q], cap, stats, use_kissat=use_kissat)
            res["verdicts"][q] = verdict
            if verdict == "sat":
                parties = inputs.party_values(model)
                real = drv.eval(cid, parties)
                pairs = input_pairs(inputs, parties)
                r_pan = concrete(it.panicked, pairs)
                r_rec = concrete(rec_r, pairs)
                r_val = concrete(ref_out, pairs) if ref_out is not None else 0
                real_pan = bool(real[0])
                real_rec = 0
                for b in real[1:enc.PANIC_BITS]:
                    real_rec = (real_rec << 1) | b
                real_val = 0
                for b in real[enc.PANIC_BITS:]:
                    real_val = (real_val << 1) | b
                # does the real build reproduce the disagreement?
                if q == "value":
                    eqc = concrete(val_eq, pairs) if out_bv is not None else True
                    # recompute equality on the REAL output bits
                    real_eq = True
                    if out_bv is not None:
                        rv = ref.decode(f.ret, z3.BitVecVal(real_val, out_bv.size()))
                        real_eq = concrete(ref.sem_eq(f.ret, rv, value), pairs)
                    reproduced = (not r_pan) and (real_pan or not real_eq)
                elif q == "panic":
                    reproduced = real_pan != r_pan
                else:
                    reproduced = r_pan and real_pan and real_rec != r_rec
                det = {"query": q, "inputs": bits_str(parties), "real_output": "".join(map(str, real)),
                       "ref_panicked": bool(r_pan), "ref_record": decode_record(r_rec),
                       "real_panicked": real_pan, "real_record": decode_record(real_rec),
                       "ref_value_bits": r_val, "real_value_bits": real_val, "reproduced": bool(reproduced),
                       "dedup": dedup}
                res["findings"].append(Finding("disagreement" if reproduced else "non_reproducing", det))
    finally:
        if not keep:
            drv.drop(cid)
    return res


def decode_record(v):
    ec = v & 0xFFFFFFFF
    el = (v >> 32) & 0xFFFFFFFF
    sc = (v >> 64) & 0xFFFFFFFF
    sl = (v >> 96) & 0xFFFFFFFF
    reason = (v >> 128) & 0xFFFFFFFF
    return {"reason": reason, "span": [sl, sc, el, ec]}


def miter(outs_a, outs_b, assume, cap, stats):
    """outputs differ somewhere? -> (verdict, model, index of first differing output in model)"""
    if len(outs_a) != len(outs_b):
        return "shape", None
    diffs = [a != b for a, b in zip(outs_a, outs_b) if a is not b and not a.eq(b)]
    if not diffs:
        stats.queries += 1
        stats.unsat += 1
        return "unsat", None
    verdict, model, dt, backend = solve.decide(list(assume) + [z3.Or(*diffs) if len(diffs) > 1 else diffs[0]], cap, stats)
    return verdict, model


def register_check(drv, cid, circ, inputs, outs, cap, stats, src=None, dedup=None):
    """Convert the compiled SSA circuit with the real From<&SsaCircuit>, encode the register program
    by symbolic simulation and compare all outputs for all inputs. -> (verdict, violations, nonrepro, info)"""
    r = drv.toreg(cid)
    viol, nonrepro = [], []
    if r[0] != "ok":
        return "conversion-failed", [{"key": "register-conversion-%s" % r[0], "text": "to_register: %s" % (r,),
                                      "replay": {"source": src, "dedup": dedup}}], [], {}
    _, rc, validity = r
    info = {"insts": len(rc.insts), "max_reg": rc.max_reg, "validity": validity}
    problems = []
    if validity != "valid":
        problems.append("register validate(): %s" % validity)
    if list(rc.inputs) != list(circ.inputs):
        problems.append("input_regs %s != input_gates %s" % (rc.inputs, circ.inputs))
    if rc.and_ops != circ.and_count():
        problems.append("and_ops %d != AND gates %d" % (rc.and_ops, circ.and_count()))
    wires = circ.n_inputs + len(circ.gates)
    used = [x for inst in rc.insts for x in inst[1:2]] + list(rc.outputs)
    hi = max([inst[1] for inst in rc.insts] + [x for inst in rc.insts if inst[0] != "I" for x in inst[2:]] + list(rc.outputs) + [0])
    if rc.max_reg < hi + 1:
        problems.append("max_reg_count %d < highest register + 1 = %d" % (rc.max_reg, hi + 1))
    if rc.max_reg > wires:
        problems.append("max_reg_count %d exceeds the number of wires %d" % (rc.max_reg, wires))
    # "loads every party's inputs in order": the Input instructions, in program order, are exactly the (party, index)
    # pairs in ascending order (the registers they load into are the allocator's business)
    want_in = [(p, i) for p, n in enumerate(circ.inputs) for i in range(n)]
    got_in = [(inst[2], inst[3]) for inst in rc.insts if inst[0] == "I"]
    if got_in != want_in:
        problems.append("Input instructions load %s..., expected every party's inputs in order" % (got_in[:12],))
    outs_r, undefined = enc.encode_reg(rc, inputs)
    if undefined:
        problems.append("registers read before being written: %s" % undefined[:5])
    for pr in problems:
        viol.append({"key": "register-structure", "text": pr, "replay": {"source": src, "dedup": dedup, "register_circuit": rc.text[:4000]}})
    verdict, model = miter(outs, outs_r, [], cap, stats)
    if verdict == "sat":
        parties = inputs.party_values(model)
        a = drv.eval(cid, parties)
        b = drv.evalr(rc.text, parties)
        det = {"inputs": bits_str(parties), "ssa_output": "".join(map(str, a)), "register_output": str(b) if isinstance(b, tuple) else "".join(map(str, b)),
               "source": src, "dedup": dedup}
        if a != b:
            viol.append({"key": "register-function", "text": "register circuit and SSA circuit differ on inputs %s" % det["inputs"], "replay": det})
        else:
            nonrepro.append(det)
    elif verdict == "shape":
        viol.append({"key": "register-structure", "text": "register circuit has %d outputs, SSA %d" % (len(outs_r), len(outs)),
                     "replay": {"source": src, "dedup": dedup}})
    return verdict, viol, nonrepro, info
