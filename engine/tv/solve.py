"""Solver front end: z3 (python API) with a per-query cap; kissat on the bit-blasted CNF as a
second back end for queries z3 leaves undecided. A timeout is never a pass."""
import os, subprocess, tempfile, time
import z3


class Stats:
    def __init__(self):
        self.queries = 0
        self.unsat = 0
        self.sat = 0
        self.unknown = 0
        self.z3_s = 0.0
        self.kissat_s = 0.0
        self.kissat_runs = 0

    def add(self, o):
        for k in ("queries", "unsat", "sat", "unknown", "z3_s", "kissat_s", "kissat_runs"):
            setattr(self, k, getattr(self, k) + getattr(o, k))

    def as_dict(self):
        return {"queries": self.queries, "unsat": self.unsat, "sat": self.sat, "inconclusive": self.unknown,
                "z3_seconds": round(self.z3_s, 2), "kissat_seconds": round(self.kissat_s, 2),
                "kissat_runs": self.kissat_runs}


def kissat_decide(constraints, timeout_s):
    """-> 'unsat' | 'sat' | 'unknown' (no model mapping: a 'sat' here is re-solved by z3)"""
    g = z3.Goal()
    g.add(*constraints)
    t = z3.Then("simplify", "bit-blast", "tseitin-cnf")
    try:
        r = t(g)
    except z3.Z3Exception:
        return "unknown"
    if len(r) != 1:
        return "unknown"
    sub = r[0]
    if sub.inconsistent():
        return "unsat"
    if len(sub) == 0:
        return "sat"
    dim = sub.dimacs()
    fd, path = tempfile.mkstemp(suffix=".cnf", dir=os.environ.get("VERIF_TMP", None))
    try:
        with os.fdopen(fd, "w") as f:
            f.write(dim)
        p = subprocess.run(["kissat", "-q", "--relaxed", "--time=%d" % max(1, int(timeout_s)), path],
                           stdout=subprocess.PIPE, stderr=subprocess.DEVNULL, text=True,
                           timeout=timeout_s + 30)
        if p.returncode == 20:
            return "unsat"
        if p.returncode == 10:
            return "sat"
        return "unknown"
    except subprocess.TimeoutExpired:
        return "unknown"
    finally:
        try:
            os.unlink(path)
        except OSError:
            pass


def decide(constraints, timeout_s, stats=None, use_kissat=True, kissat_s=None):
    """constraints: list of z3 Bool. -> (verdict, model|None, seconds, backend)"""
    st = stats if stats is not None else Stats()
    st.queries += 1
    t0 = time.time()
    s = z3.Solver()
    s.set("timeout", int(timeout_s * 1000))
    s.add(*constraints)
    r = s.check()
    dt = time.time() - t0
    st.z3_s += dt
    if r == z3.unsat:
        st.unsat += 1
        return "unsat", None, dt, "z3"
    if r == z3.sat:
        st.sat += 1
        return "sat", s.model(), dt, "z3"
    if use_kissat:
        t1 = time.time()
        st.kissat_runs += 1
        k = kissat_decide(constraints, kissat_s if kissat_s is not None else timeout_s)
        dk = time.time() - t1
        st.kissat_s += dk
        if k == "unsat":
            st.unsat += 1
            return "unsat", None, dt + dk, "kissat"
        if k == "sat":
            # need a model: give z3 a longer second chance
            t2 = time.time()
            s2 = z3.Solver()
            s2.set("timeout", int(timeout_s * 3000))
            s2.add(*constraints)
            r2 = s2.check()
            st.z3_s += time.time() - t2
            if r2 == z3.sat:
                st.sat += 1
                return "sat", s2.model(), time.time() - t0, "kissat+z3"
    st.unknown += 1
    return "unknown", None, time.time() - t0, "z3"
