"""Encode the circuits the real compiler emitted as z3 Boolean terms over symbolic input bits."""
import z3

PANIC_BITS = 161


class Inputs:
    """Symbolic inputs: one bit-vector per party (first bit of the party = MSB)."""

    def __init__(self, sizes, prefix="in"):
        self.sizes = list(sizes)
        self.bv = [z3.BitVec("%s%d" % (prefix, p), n) if n > 0 else None for p, n in enumerate(self.sizes)]
        self.bits = []  # flat list of z3 Bool, in wire order
        self.index = []  # (party, bit index within party)
        for p, n in enumerate(self.sizes):
            for i in range(n):
                self.bits.append(z3.Extract(n - 1 - i, n - 1 - i, self.bv[p]) == 1)
                self.index.append((p, i))

    def party_values(self, model):
        """-> list (per party) of lists of 0/1 from a z3 model (unassigned bits default to 0)."""
        out = []
        for p, n in enumerate(self.sizes):
            if n == 0:
                out.append([])
                continue
            v = model.eval(self.bv[p], model_completion=True).as_long()
            out.append([(v >> (n - 1 - i)) & 1 for i in range(n)])
        return out

    def assign(self, parties):
        """z3 constraints fixing all inputs to the concrete party bit lists."""
        cs = []
        for p, n in enumerate(self.sizes):
            if n == 0:
                continue
            v = 0
            for b in parties[p]:
                v = (v << 1) | int(b)
            cs.append(self.bv[p] == z3.BitVecVal(v, n))
        return cs


_T = z3.BoolVal(True)
_F = z3.BoolVal(False)


class _Builder:
    """Tiny AIG-ish layer: constant propagation + structural hashing before z3 terms are made."""

    def __init__(self):
        self.cache = {}

    def xor(self, a, b):
        if a is _F:
            return b
        if b is _F:
            return a
        if a is _T:
            return self.nt(b)
        if b is _T:
            return self.nt(a)
        ia, ib = a.get_id(), b.get_id()
        if ia == ib:
            return _F
        k = ("x", ia, ib) if ia < ib else ("x", ib, ia)
        r = self.cache.get(k)
        if r is None:
            r = (a != b)  # not z3.Xor: Z3_mk_xor (z3 5.1) flattens nested xors and goes exponential on shifter-shaped DAGs
            self.cache[k] = r
        return r

    def and_(self, a, b):
        if a is _F or b is _F:
            return _F
        if a is _T:
            return b
        if b is _T:
            return a
        ia, ib = a.get_id(), b.get_id()
        if ia == ib:
            return a
        k = ("a", ia, ib) if ia < ib else ("a", ib, ia)
        r = self.cache.get(k)
        if r is None:
            r = z3.And(a, b)
            self.cache[k] = r
        return r

    def nt(self, a):
        if a is _T:
            return _F
        if a is _F:
            return _T
        k = ("n", a.get_id())
        r = self.cache.get(k)
        if r is None:
            r = z3.Not(a)
            self.cache[k] = r
            self.cache[("n", r.get_id())] = a
        return r


def encode_ssa(circ, inputs):
    """circ: drv.Circuit; inputs: Inputs with matching sizes. Returns list of z3 Bool, one per output."""
    assert list(circ.inputs) == inputs.sizes, (circ.inputs, inputs.sizes)
    b = _Builder()
    w = list(inputs.bits)
    for kind, x, y in circ.gates:
        if kind == "x":
            w.append(b.xor(w[x], w[y]))
        elif kind == "a":
            w.append(b.and_(w[x], w[y]))
        else:
            w.append(b.nt(w[x]))
    return [w[o] for o in circ.outputs]


def encode_reg(rc, inputs):
    """Symbolic simulation of a register program. Returns (outputs, undefined_reads) where
    undefined_reads lists (instruction index, register) read before any write (structural)."""
    assert list(rc.inputs) == inputs.sizes
    b = _Builder()
    regs = {}
    undefined = []
    offs = []
    o = 0
    for n in inputs.sizes:
        offs.append(o)
        o += n

    def rd(i, r):
        if r not in regs:
            undefined.append((i, r))
            return _F
        return regs[r]

    for i, inst in enumerate(rc.insts):
        k = inst[0]
        if k == "I":
            _, out, party, inp = inst
            if party >= len(inputs.sizes) or inp >= inputs.sizes[party]:
                undefined.append((i, -1))
                regs[out] = _F
            else:
                regs[out] = inputs.bits[offs[party] + inp]
        elif k == "x":
            regs[inst[1]] = b.xor(rd(i, inst[2]), rd(i, inst[3]))
        elif k == "a":
            regs[inst[1]] = b.and_(rd(i, inst[2]), rd(i, inst[3]))
        else:
            regs[inst[1]] = b.nt(rd(i, inst[2]))
    outs = [rd(len(rc.insts), r) for r in rc.outputs]
    return outs, undefined


def eval_ssa_py(circ, parties):
    """Plain Python evaluation of an SSA circuit (used only to cross-check the encoder)."""
    w = [int(b) for p in parties for b in p]
    for kind, x, y in circ.gates:
        if kind == "x":
            w.append(w[x] ^ w[y])
        elif kind == "a":
            w.append(w[x] & w[y])
        else:
            w.append(1 - w[x])
    return [w[o] for o in circ.outputs]


def bits_to_bv(bits):
    """list of z3 Bool (MSB first) -> z3 BitVec"""
    if not bits:
        return None
    parts = [z3.If(b, z3.BitVecVal(1, 1), z3.BitVecVal(0, 1)) for b in bits]
    return z3.Concat(*parts) if len(parts) > 1 else parts[0]


def split_panic(outs):
    """outputs of a compiled circuit -> (has_panicked Bool, record 160-bit BV, value bits list)"""
    has = outs[0]
    rec = bits_to_bv(outs[1:PANIC_BITS])
    return has, rec, outs[PANIC_BITS:]


def record_const(reason, span):
    """(reason number, (sl, sc, el, ec)) -> 160-bit constant"""
    v = reason
    for x in span:
        v = (v << 32) | x
    return z3.BitVecVal(v, 160)
