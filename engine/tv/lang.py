"""Generator-owned AST of Garble programs, with a pretty-printer that also computes, for every
node, the source span the front end is documented (by its panic messages) to report:
0-based (line, column of first char) .. (line, column after last char), outer parentheses not
included. The printer never re-parses Garble text; every program starts with an empty line and
every statement is indented, which is the region where the scanner's line/column rule is regular
(checked on every run against spans reported by the real front end, see spanprobe in run.py)."""


SUBST = None  # when set ({const name: (type, value)}), constants are printed as their values (C12 twin programs)


# ----------------------------------------------------------------------------- types
class Ty:
    def __eq__(self, o):
        return type(self) is type(o) and self.key() == o.key()

    def __hash__(self):
        return hash((type(self).__name__, self.key()))

    def __repr__(self):
        return self.src()


class TBool(Ty):
    def key(self):
        return ()

    def src(self):
        return "bool"


class TInt(Ty):
    def __init__(self, signed, bits, name=None):
        self.signed, self.bits = signed, bits
        self.name = name or (("i" if signed else "u") + str(bits))

    def key(self):
        return (self.name,)

    def src(self):
        return self.name

    @property
    def min(self):
        return -(1 << (self.bits - 1)) if self.signed else 0

    @property
    def max(self):
        return (1 << (self.bits - 1)) - 1 if self.signed else (1 << self.bits) - 1


class TArr(Ty):
    def __init__(self, elem, n):
        self.elem, self.n = elem, n

    def key(self):
        return (self.elem, self.n)

    def src(self):
        return "[%s; %d]" % (self.elem.src(), self.n)


class TArrC(Ty):
    """array whose size is a named const or const-expression; `n` is the resolved size,
    `size_src` the source text of the size (e.g. 'N' or 'const { N + 1usize }')."""

    def __init__(self, elem, n, size_src):
        self.elem, self.n, self.size_src = elem, n, size_src

    def key(self):
        return (self.elem, self.n, self.size_src)

    def src(self):
        if SUBST is not None:
            return "[%s; %d]" % (self.elem.src(), self.n)
        return "[%s; %s]" % (self.elem.src(), self.size_src)


class TTup(Ty):
    def __init__(self, elems):
        self.elems = list(elems)

    def key(self):
        return tuple(self.elems)

    def src(self):
        return "(" + ", ".join(e.src() for e in self.elems) + ")"


class TStruct(Ty):
    def __init__(self, name, fields):
        self.name, self.fields = name, list(fields)  # fields sorted by name (layout order)

    def key(self):
        return (self.name,)

    def src(self):
        return self.name

    def field_ty(self, f):
        for n, t in self.fields:
            if n == f:
                return t
        raise KeyError(f)


class TEnum(Ty):
    def __init__(self, name, variants):
        self.name, self.variants = name, list(variants)  # [(vname, [field types])]

    def key(self):
        return (self.name,)

    def src(self):
        return self.name

    @property
    def tag_bits(self):
        b = 0
        while (1 << b) < len(self.variants):
            b += 1
        return b

    def variant_index(self, v):
        for i, (n, _) in enumerate(self.variants):
            if n == v:
                return i
        raise KeyError(v)


BOOL = TBool()
U8, U16, U32, U64 = TInt(False, 8), TInt(False, 16), TInt(False, 32), TInt(False, 64)
I8, I16, I32, I64 = TInt(True, 8), TInt(True, 16), TInt(True, 32), TInt(True, 64)
USIZE = TInt(False, 32, "usize")
INT_TYPES = [U8, U16, U32, U64, USIZE, I8, I16, I32, I64]
UNIT = TTup([])


def is_arr(t):
    return isinstance(t, (TArr, TArrC))


def size_of(t):
    if isinstance(t, TBool):
        return 1
    if isinstance(t, TInt):
        return t.bits
    if is_arr(t):
        return size_of(t.elem) * t.n
    if isinstance(t, TTup):
        return sum(size_of(e) for e in t.elems)
    if isinstance(t, TStruct):
        return sum(size_of(ft) for _, ft in t.fields)
    if isinstance(t, TEnum):
        return t.tag_bits + max([sum(size_of(f) for f in fs) for _, fs in t.variants] + [0])
    raise TypeError(t)


# ----------------------------------------------------------------------------- AST
class Node:
    span = None  # filled in by the printer


class Lit(Node):
    def __init__(self, ty, v, suffix=True):
        self.ty, self.v, self.suffix = ty, v, suffix


class Var(Node):
    def __init__(self, name, ty):
        self.name, self.ty = name, ty


class Un(Node):
    def __init__(self, op, e):  # '-' | '!'
        self.op, self.e, self.ty = op, e, e.ty


ARITH = ("+", "-", "*", "/", "%")
BITW = ("&", "|", "^")
SHIFT = ("<<", ">>")
CMP = ("<", ">", "<=", ">=")
EQ = ("==", "!=")
LOGIC = ("&&", "||")


class Bin(Node):
    def __init__(self, op, l, r):
        self.op, self.l, self.r = op, l, r
        self.ty = BOOL if op in CMP + EQ + LOGIC else l.ty


class Cast(Node):
    def __init__(self, e, ty):
        self.e, self.ty = e, ty


class Block(Node):
    """{ stmts; expr } -- expr may be None (unit)"""

    def __init__(self, stmts, e):
        self.stmts, self.e = stmts, e
        self.ty = e.ty if e is not None else UNIT


class If(Node):
    def __init__(self, c, t, f):  # t, f: Block ; f may be None (no else, unit)
        self.c, self.t, self.f = c, t, f
        self.ty = t.ty


class Match(Node):
    def __init__(self, scrut, arms, ty):  # arms: [(pattern, expr)]
        self.scrut, self.arms, self.ty = scrut, arms, ty


class Call(Node):
    def __init__(self, fn, args, ty):
        self.fn, self.args, self.ty = fn, args, ty


class ArrLit(Node):
    def __init__(self, elems, ty=None):
        self.elems = elems
        self.ty = ty or TArr(elems[0].ty, len(elems))


class ArrRep(Node):
    def __init__(self, e, n, size_src=None):
        self.e, self.n, self.size_src = e, n, size_src
        self.ty = TArr(e.ty, n) if size_src is None else TArrC(e.ty, n, size_src)


class Range(Node):
    def __init__(self, lo, hi, ety, suffix=True):
        self.lo, self.hi, self.ety, self.suffix = lo, hi, ety, suffix
        self.ty = TArr(ety, hi - lo)


class Index(Node):
    def __init__(self, a, i):
        self.a, self.i, self.ty = a, i, a.ty.elem


class TupLit(Node):
    def __init__(self, elems):
        self.elems, self.ty = elems, TTup([e.ty for e in elems])


class TupGet(Node):
    def __init__(self, e, i):
        self.e, self.i, self.ty = e, i, e.ty.elems[i]


class StructLit(Node):
    def __init__(self, sty, fields):  # fields [(name, expr)] in sorted-name order
        self.ty, self.fields = sty, fields


class Field(Node):
    def __init__(self, e, f):
        self.e, self.f, self.ty = e, f, e.ty.field_ty(f)


class EnumLit(Node):
    def __init__(self, ety, variant, args):
        self.ty, self.variant, self.args = ety, variant, args


class JoinCall(Node):
    """join(a, b) builtin"""

    def __init__(self, a, b, ty):
        self.a, self.b, self.ty = a, b, ty


class Raw(Node):
    """verbatim source text with a declared type (templates only); has no reference semantics"""

    def __init__(self, text, ty):
        self.text, self.ty = text, ty


# statements
class Let(Node):
    def __init__(self, pat, e, annot=None):
        self.pat, self.e, self.annot = pat, e, annot


class LetMut(Node):
    def __init__(self, name, e, annot=None):
        self.name, self.e, self.annot = name, e, annot


class Assign(Node):
    """name accessors = e ; accessors: [('idx', expr) | ('tup', i) | ('fld', name)] ;
    op: None or one of + - * / % ^ & | << >> (compound assignment)"""

    def __init__(self, name, vty, accs, e, op=None):
        self.name, self.vty, self.accs, self.e, self.op = name, vty, accs, e, op


class For(Node):
    def __init__(self, pat, arr, body):
        self.pat, self.arr, self.body = pat, arr, body


class ForJoin(Node):
    def __init__(self, pat, a, b, body):
        self.pat, self.a, self.b, self.body = pat, a, b, body


class ExprStmt(Node):
    def __init__(self, e):
        self.e = e


# patterns
class PVar(Node):
    def __init__(self, name):
        self.name = name  # '_' prefix allowed


class PLit(Node):
    def __init__(self, ty, v, suffix=True):
        self.ty, self.v, self.suffix = ty, v, suffix


class PRange(Node):
    def __init__(self, ty, lo, hi, inclusive, suffix=True):
        self.ty, self.lo, self.hi, self.inclusive, self.suffix = ty, lo, hi, inclusive, suffix


class PTup(Node):
    def __init__(self, ps):
        self.ps = ps


class PStruct(Node):
    def __init__(self, sty, fields, rest=False):  # fields [(name, pat)]
        self.sty, self.fields, self.rest = sty, fields, rest


class PEnum(Node):
    def __init__(self, ety, variant, ps):
        self.ety, self.variant, self.ps = ety, variant, ps


class FnDef:
    def __init__(self, name, params, ret, body, pub=False):
        # params: [(name, ty, is_mut)] ; body: Block
        self.name, self.params, self.ret, self.body, self.pub = name, params, ret, body, pub


class Program:
    def __init__(self, fns, structs=(), enums=(), consts=()):
        # consts: [(name, ty, src_of_value)]
        self.fns, self.structs, self.enums, self.consts = list(fns), list(structs), list(enums), list(consts)

    def fn(self, name):
        for f in self.fns:
            if f.name == name:
                return f
        raise KeyError(name)


# ----------------------------------------------------------------------------- printer
def lit_src(ty, v, suffix=True):
    if isinstance(ty, TBool):
        return "true" if v else "false"
    return "%d%s" % (v, ty.name if suffix else "")


class Printer:
    def __init__(self):
        self.buf = []
        self.line = 0
        self.col = 0

    def w(self, s):
        assert "\n" not in s
        self.buf.append(s)
        self.col += len(s)

    def nl(self, indent):
        self.buf.append("\n" + " " * indent)
        self.line += 1
        self.col = indent

    def pos(self):
        return (self.line, self.col)

    def text(self):
        return "".join(self.buf)

    # -- expressions. prec: higher binds tighter. Returns span (start, end).
    PREC = {"||": 1, "&&": 2, "==": 3, "!=": 3, "<": 4, ">": 4, "<=": 4, ">=": 4, "|": 5, "^": 6, "&": 7,
            "<<": 8, ">>": 8, "+": 9, "-": 9, "*": 10, "/": 10, "%": 10}

    def expr(self, e, ind, ctx=0, no_struct=False):
        """print e; wrap in parens when its precedence is below ctx. Span excludes the parens."""
        p = self.prec(e)
        paren = p < ctx or (no_struct and self.has_bare_struct(e))
        if paren:
            self.w("(")
            sp = self.expr_inner(e, ind, False)
            self.w(")")
        else:
            sp = self.expr_inner(e, ind, no_struct)
        e.span = sp
        return sp

    def has_bare_struct(self, e):
        return isinstance(e, StructLit)

    def head(self, e, ind):
        """condition / scrutinee / iterable position (no struct literals allowed there). The parser
        re-enables struct literals after a nested if/match, so `.. x {` would then be misread as a
        struct literal; such heads are parenthesized (the span excludes the parentheses)."""
        if contains_ctrl(e):
            self.w("(")
            sp = self.expr(e, ind, 0)
            self.w(")")
            return sp
        return self.expr(e, ind, 0, no_struct=True)

    def prec(self, e):
        if isinstance(e, Bin):
            return self.PREC[e.op]
        if isinstance(e, Cast):
            return 11
        if isinstance(e, (If, Match)):
            return 0  # always parenthesized when used as an operand
        if isinstance(e, Un):
            return 13
        if isinstance(e, Lit) and not isinstance(e.ty, TBool) and e.v < 0:
            return 13
        if isinstance(e, Block):
            return 0  # `{` is only accepted at the top of an expression
        if isinstance(e, Raw):
            return 0
        return 14

    def expr_inner(self, e, ind, no_struct):
        s = self.pos()
        if isinstance(e, Lit):
            self.w(lit_src(e.ty, e.v, e.suffix))
            return (s, self.pos())
        if isinstance(e, Raw):
            self.w(e.text)
            return (s, self.pos())
        if isinstance(e, Var):
            if SUBST is not None and e.name in SUBST:
                t, v = SUBST[e.name]
                self.w(lit_src(t, v))
            else:
                self.w(e.name)
            return (s, self.pos())
        if isinstance(e, Un):
            self.w(e.op)
            _, en = self.expr(e.e, ind, 13)
            return (s, en)
        if isinstance(e, Bin):
            p = self.PREC[e.op]
            # comparison/equality chains are non-associative in our printer: always parenthesize
            # equal precedence on the right; on the left only for non-associative levels
            lctx = p + 1 if e.op in CMP + EQ else p
            st, _ = self.expr(e.l, ind, lctx, no_struct)
            self.w(" " + e.op + " ")
            _, en = self.expr(e.r, ind, p + 1, no_struct)
            return (st, en)
        if isinstance(e, Cast):
            st, _ = self.expr(e.e, ind, 11, no_struct)
            self.w(" as ")
            self.w(e.ty.src())
            return (st, self.pos())
        if isinstance(e, Block):
            self.block(e, ind)
            return (s, self.pos())
        if isinstance(e, If):
            self.w("if ")
            self.head(e.c, ind)
            self.w(" ")
            self.block(e.t, ind)
            if e.f is not None:
                self.w(" else ")
                self.block(e.f, ind)
            return (s, self.pos())
        if isinstance(e, Match):
            self.w("match ")
            self.head(e.scrut, ind)
            self.w(" {")
            for pat, body in e.arms:
                self.nl(ind + 4)
                self.pattern(pat)
                self.w(" => ")
                if isinstance(body, Block):
                    self.block(body, ind + 4)
                    body.span = None
                else:
                    self.expr(body, ind + 4, 0)
                self.w(",")
            self.nl(ind)
            self.w("}")
            return (s, self.pos())
        if isinstance(e, Call):
            self.w(e.fn + "(")
            for k, a in enumerate(e.args):
                if k:
                    self.w(", ")
                self.expr(a, ind, 0)
            self.w(")")
            return (s, self.pos())
        if isinstance(e, JoinCall):
            self.w("join(")
            self.expr(e.a, ind, 0)
            self.w(", ")
            self.expr(e.b, ind, 0)
            self.w(")")
            return (s, self.pos())
        if isinstance(e, ArrLit):
            self.w("[")
            for k, a in enumerate(e.elems):
                if k:
                    self.w(", ")
                self.expr(a, ind, 0)
            self.w("]")
            return (s, self.pos())
        if isinstance(e, ArrRep):
            self.w("[")
            self.expr(e.e, ind, 0)
            self.w("; %s]" % (e.size_src if e.size_src is not None and SUBST is None else str(e.n)))
            return (s, self.pos())
        if isinstance(e, Range):
            self.w("%s..%s" % (lit_src(e.ety, e.lo, e.suffix), lit_src(e.ety, e.hi, e.suffix)))
            return (s, self.pos())
        if isinstance(e, Index):
            st, _ = self.expr(e.a, ind, 14, no_struct)
            self.w("[")
            self.expr(e.i, ind, 0)
            self.w("]")
            return (st, self.pos())
        if isinstance(e, TupLit):
            self.w("(")
            for k, a in enumerate(e.elems):
                if k:
                    self.w(", ")
                self.expr(a, ind, 0)
            if len(e.elems) == 1:
                self.w(",")
            self.w(")")
            return (s, self.pos())
        if isinstance(e, TupGet):
            st, _ = self.expr(e.e, ind, 14, no_struct)
            self.w(".%d" % e.i)
            return (st, self.pos())
        if isinstance(e, Field):
            self.expr(e.e, ind, 14, no_struct)
            self.w(".")
            fs = self.pos()
            self.w(e.f)
            # the front end reports the span of the field identifier only
            return (fs, self.pos())
        if isinstance(e, StructLit):
            self.w(e.ty.name)
            en = self.pos()
            self.w(" { ")
            for k, (f, a) in enumerate(e.fields):
                if k:
                    self.w(", ")
                self.w(f + ": ")
                self.expr(a, ind, 0)
            self.w(" }")
            return (s, en)
        if isinstance(e, EnumLit):
            self.w(e.ty.name + "::" + e.variant)
            en = self.pos()
            if e.args:
                self.w("(")
                for k, a in enumerate(e.args):
                    if k:
                        self.w(", ")
                    self.expr(a, ind, 0)
                self.w(")")
            return (s, en)
        raise TypeError(type(e))

    def stmts(self, stmts, ind):
        """statement list. An if/match/block statement has no terminating `;` and the parser would
        continue it with a following `-..` / `[..]`; an expression statement right after one is
        therefore parenthesized."""
        prev_brace = False
        for st in stmts:
            self.nl(ind)
            self.stmt(st, ind, guard=prev_brace)
            prev_brace = isinstance(st, ExprStmt) and isinstance(st.e, (If, Match, Block))
        return prev_brace

    def block(self, b, ind):
        self.w("{")
        prev_brace = self.stmts(b.stmts, ind + 4)
        if b.e is not None:
            self.nl(ind + 4)
            if prev_brace and not isinstance(b.e, (If, Match, Block)):
                self.w("(")
                self.expr(b.e, ind + 4, 0)
                self.w(")")
            else:
                self.expr(b.e, ind + 4, 0)
        self.nl(ind)
        self.w("}")

    def pattern(self, p):
        if isinstance(p, PVar):
            self.w(p.name)
        elif isinstance(p, PLit):
            self.w(lit_src(getattr(p, "sfx_ty", None) or p.ty, p.v, p.suffix))
        elif isinstance(p, PRange):
            # sfx_ty: the literals carry the suffix of ANOTHER integer type whose range holds the bounds (the front end
            # accepts that against any number scrutinee and compares numerically)
            st = getattr(p, "sfx_ty", None) or p.ty
            self.w(lit_src(st, p.lo, p.suffix) + ("..=" if p.inclusive else "..") + lit_src(st, p.hi, p.suffix))
        elif isinstance(p, PTup):
            self.w("(")
            for k, q in enumerate(p.ps):
                if k:
                    self.w(", ")
                self.pattern(q)
            if len(p.ps) == 1:
                self.w(",")
            self.w(")")
        elif isinstance(p, PStruct):
            self.w(p.sty.name + " { ")
            for k, (f, q) in enumerate(p.fields):
                if k:
                    self.w(", ")
                if isinstance(q, PVar) and q.name == f:
                    self.w(f)
                else:
                    self.w(f + ": ")
                    self.pattern(q)
            if p.rest:
                self.w(", .." if p.fields else "..")
            self.w(" }")
        elif isinstance(p, PEnum):
            self.w(p.ety.name + "::" + p.variant)
            if p.ps:
                self.w("(")
                for k, q in enumerate(p.ps):
                    if k:
                        self.w(", ")
                    self.pattern(q)
                self.w(")")
        else:
            raise TypeError(type(p))

    def stmt(self, st, ind, guard=False):
        s = self.pos()
        if isinstance(st, Let):
            self.w("let ")
            self.pattern(st.pat)
            if st.annot is not None:
                self.w(": " + st.annot.src())
            self.w(" = ")
            _, en = self.expr(st.e, ind, 0)
            self.w(";")
            st.span = (s, en)
        elif isinstance(st, LetMut):
            self.w("let mut " + st.name)
            if st.annot is not None:
                self.w(": " + st.annot.src())
            self.w(" = ")
            _, en = self.expr(st.e, ind, 0)
            self.w(";")
            st.span = (s, en)
        elif isinstance(st, Assign):
            self.w(st.name)
            for a in st.accs:
                if a[0] == "idx":
                    self.w("[")
                    self.expr(a[1], ind, 0)
                    self.w("]")
                elif a[0] == "tup":
                    self.w(".%d" % a[1])
                else:
                    self.w(".")
                    # the front end's span of a field access is the field identifier only, and
                    # the statement span starts where the target expression's span starts
                    s = self.pos()
                    self.w(a[1])
            self.w(" %s= " % (st.op or ""))
            _, en = self.expr(st.e, ind, 0)
            self.w(";")
            st.span = (s, en)
        elif isinstance(st, For):
            self.w("for ")
            self.pattern(st.pat)
            self.w(" in ")
            self.head(st.arr, ind)
            self.w(" {")
            self.stmts(st.body, ind + 4)
            self.nl(ind)
            self.w("}")
            st.span = (s, self.pos())
        elif isinstance(st, ForJoin):
            self.w("for ")
            self.pattern(st.pat)
            self.w(" in join_iter(")
            self.expr(st.a, ind, 0)
            self.w(", ")
            self.expr(st.b, ind, 0)
            self.w(") {")
            self.stmts(st.body, ind + 4)
            self.nl(ind)
            self.w("}")
            st.span = (s, self.pos())
        elif isinstance(st, ExprStmt):
            if isinstance(st.e, (If, Match, Block)):
                sp = self.expr(st.e, ind, 0)
            elif guard:
                self.w("(")
                sp = self.expr(st.e, ind, 0)
                self.w(");")
            else:
                sp = self.expr(st.e, ind, 0)
                self.w(";")
            st.span = sp
        else:
            raise TypeError(type(st))

    def program(self, prog):
        # first line empty: all code lives on lines >= 1
        for name, ty, val in prog.consts:
            self.nl(0)
            self.w("const %s: %s = %s;" % (name, ty.src(), val))
        for s in prog.structs:
            self.nl(0)
            self.w("struct %s { %s }" % (s.name, ", ".join("%s: %s" % (f, t.src()) for f, t in s.fields)))
        for e in prog.enums:
            self.nl(0)
            vs = []
            for vn, fs in e.variants:
                vs.append(vn + ("(" + ", ".join(t.src() for t in fs) + ")" if fs else ""))
            self.w("enum %s { %s }" % (e.name, ", ".join(vs)))
        for f in prog.fns:
            self.nl(0)
            ps = ", ".join(("mut " if m else "") + "%s: %s" % (n, t.src()) for n, t, m in f.params)
            self.w("%sfn %s(%s) -> %s " % ("pub " if f.pub else "", f.name, ps, f.ret.src()))
            self.block(f.body, 0)
        self.nl(0)
        return self.text()


def contains_ctrl(node):
    if isinstance(node, (If, Match, Block)):
        return True
    if isinstance(node, (list, tuple)):
        return any(contains_ctrl(x) for x in node)
    if isinstance(node, Node):
        return any(contains_ctrl(v) for v in vars(node).values() if isinstance(v, (Node, list, tuple)))
    return False


def render(prog):
    """-> source text; all nodes get .span = ((sl, sc), (el, ec))"""
    return Printer().program(prog)
