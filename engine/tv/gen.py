"""Seeded generator of well-typed, fully annotated Garble programs (typed AST by construction)."""
import random
from lang import *


class Cfg:
    def __init__(self, **kw):
        self.int_types = [U8, I8, U16, I16]
        self.muldiv_bits = 8  # `* / %` with two non-constant operands only up to this width
        self.const_muldiv_bits = 16  # with one literal operand up to this width
        self.depth = 3
        self.stmts = 4
        self.structs = True
        self.enums = True
        self.arrays = True
        self.tuples = True
        self.calls = True
        self.loops = True
        self.matches = True
        self.mutation = 0.3  # weight of mutation statements
        self.panic_bias = 0.3  # extra weight for potentially failing operations
        self.ret_all_vars = False
        self.max_params = 3
        self.max_arr = 3
        self.neg_const_mul = False  # literal negative multipliers (known finding region)
        self.assign_focus = 0.0  # profile "assignorder": nested arrays assigned through input-dependent indices
        for k, v in kw.items():
            assert hasattr(self, k), k
            setattr(self, k, v)


def contains_struct(t):
    if isinstance(t, TStruct):
        return True
    if is_arr(t):
        return contains_struct(t.elem)
    if isinstance(t, TTup):
        return any(contains_struct(x) for x in t.elems)
    if isinstance(t, TEnum):
        return any(contains_struct(x) for _, fs in t.variants for x in fs)
    return False


class Gen:
    def __init__(self, seed, cfg=None):
        self.rng = random.Random(seed)
        self.cfg = cfg or Cfg()
        self.structs = []
        self.enums = []
        self.fns = []
        self.scopes = []
        self.counter = 0
        self.no_struct = 0
        self.fn_depth = 0
        self.budget = 0
        self.no_shadow = set()
        self._pat_used = set()
        self._shadow_p = 0.12
        self.in_index = 0
        self.no_assign = []  # variables that are being assigned by an enclosing statement

    # ---------------------------------------------------------------- helpers
    def fresh(self, p="v"):
        self.counter += 1
        return "%s%d" % (p, self.counter)

    def chance(self, p):
        return self.rng.random() < p

    def pick(self, xs):
        return xs[self.rng.randrange(len(xs))]

    def wpick(self, pairs):
        tot = sum(w for _, w in pairs)
        r = self.rng.random() * tot
        for x, w in pairs:
            r -= w
            if r <= 0:
                return x
        return pairs[-1][0]

    def vars_of(self, pred):
        seen = set()
        out = []
        for s in reversed(self.scopes):
            for n, (t, m) in s.items():
                if n in seen:
                    continue
                seen.add(n)
                if pred(t, m):
                    out.append((n, t, m))
        return out

    def declare(self, name, ty, mut):
        self.scopes[-1][name] = (ty, mut)

    # ---------------------------------------------------------------- types
    def rand_int_type(self):
        return self.pick(self.cfg.int_types)

    def rand_scalar(self):
        return BOOL if self.chance(0.2) else self.rand_int_type()

    def rand_type(self, d=2, first_enum_field=False):
        c = self.cfg
        opts = [("scalar", 5)]
        if d > 0 and not first_enum_field:
            if c.arrays:
                opts.append(("arr", 2))
            if c.tuples:
                opts.append(("tup", 2))
        if d > 0 and c.structs and self.structs:
            opts.append(("struct", 1))
        if d > 0 and c.enums and self.enums:
            opts.append(("enum", 1))
        k = self.wpick(opts)
        if k == "scalar":
            return self.rand_scalar()
        if k == "arr":
            et = self.rand_type(d - 1)
            n = self.rng.randint(1, c.max_arr)
            if c.max_arr >= 3 and d >= 2 and size_of(et) <= 24 and self.chance(0.12):
                # lengths that are not powers of two make the mux trees of indexed reads / writes lopsided
                n = self.pick([3, 5, 6, 7])
            return TArr(et, n)
        if k == "tup":
            return TTup([self.rand_type(d - 1) for _ in range(self.rng.randint(2, 3))])
        if k == "struct":
            return self.pick(self.structs)
        return self.pick(self.enums)

    def make_defs(self):
        c = self.cfg
        if c.structs:
            for i in range(self.rng.randint(0, 2)):
                n = self.rng.randint(1, 3)
                names = sorted(self.rng.sample(["a", "b", "c", "d", "e"], n))
                self.structs.append(TStruct("S%d" % i, [(f, self.rand_type(1)) for f in names]))
        if c.enums:
            for i in range(self.rng.randint(0, 2)):
                nv = self.rng.randint(1, 4)
                vs = []
                for k in range(nv):
                    if self.chance(0.4) and nv > 1:
                        vs.append(("V%d" % k, []))
                    else:
                        nf = self.rng.randint(1, 2)
                        fs = [self.rand_scalar()] + [self.rand_type(1) for _ in range(nf - 1)]
                        fs = [f for f in fs if not isinstance(f, TEnum)]
                        vs.append(("V%d" % k, fs))
                self.enums.append(TEnum("E%d" % i, vs))

    # ---------------------------------------------------------------- literals
    def int_lit(self, ty):
        r = self.rng.random()
        if r < 0.35:
            v = self.pick([0, 1, 2, 3, ty.max, ty.max - 1, ty.min, ty.min + 1 if ty.signed else 4,
                           -1 if ty.signed else 5, 1 << (ty.bits - 2), 7, 8])
        else:
            v = self.rng.randint(ty.min, ty.max)
        v = max(ty.min, min(ty.max, v))
        return Lit(ty, v)

    def literal(self, ty):
        if isinstance(ty, TBool):
            return Lit(BOOL, self.rng.randint(0, 1))
        if isinstance(ty, TInt):
            return self.int_lit(ty)
        return self.construct(ty, 0)

    def construct(self, ty, d):
        """aggregate literal with element expressions of depth d"""
        if isinstance(ty, (TBool, TInt)):
            return self.expr(ty, d)
        if is_arr(ty):
            r = self.rng.random()
            if r < 0.25:
                return ArrRep(self.expr(ty.elem, d), ty.n)
            if r < 0.4 and isinstance(ty.elem, TInt) and not ty.elem.signed:
                lo = self.rng.randint(0, min(ty.elem.max - ty.n, 250))
                return Range(lo, lo + ty.n, ty.elem)
            return ArrLit([self.expr(ty.elem, d) for _ in range(ty.n)], ty)
        if isinstance(ty, TTup):
            return TupLit([self.expr(t, d) for t in ty.elems])
        if isinstance(ty, TStruct):
            return StructLit(ty, [(f, self.expr(t, d)) for f, t in ty.fields])
        if isinstance(ty, TEnum):
            vn, fs = self.pick(ty.variants)
            return EnumLit(ty, vn, [self.expr(t, d) for t in fs])
        raise TypeError(ty)

    # ---------------------------------------------------------------- expressions
    def leaf(self, ty):
        vs = self.vars_of(lambda t, m: t == ty)
        if vs and self.chance(0.85):
            n, t, m = self.pick(vs)
            return Var(n, t)
        if isinstance(ty, (TBool, TInt)) and self.chance(0.8):
            sv = self.vars_of(lambda t, m: isinstance(t, (TBool, TInt)))
            if sv:
                n, t, m = self.pick(sv)
                return Cast(Var(n, t), ty)
        if self.no_struct and contains_struct(ty):
            if vs:
                n, t, m = self.pick(vs)
                return Var(n, t)
            raise NoStruct()
        return self.literal(ty)

    def access_paths(self, ty):
        """expressions reading a component of type ty out of a variable in scope"""
        out = []
        for n, t, m in self.vars_of(lambda t, m: True):
            base = Var(n, t)
            if isinstance(t, TTup):
                for i, et in enumerate(t.elems):
                    if et == ty:
                        out.append(TupGet(base, i))
            elif isinstance(t, TStruct):
                for f, ft in t.fields:
                    if ft == ty:
                        out.append(Field(base, f))
            elif is_arr(t) and t.elem == ty and t.n > 0:
                out.append(("index", base))
        return out

    def index_expr(self, n, d):
        """an index into an array of n elements: mostly in range, sometimes input-dependent"""
        r = self.rng.random()
        if self.cfg.assign_focus and d > 0 and self.chance(self.cfg.assign_focus):
            r = 0.9
        if r < 0.5 or d <= 0:
            return Lit(USIZE, self.rng.randrange(n), suffix=self.chance(0.5))
        if r < 0.6:
            return Lit(USIZE, n + self.rng.randint(0, 1))  # statically out of bounds
        self.in_index += 1
        try:
            return self.expr(USIZE, min(d - 1, 1)) if USIZE in self.cfg.int_types or self.chance(0.3) else \
                Cast(self.expr(self.pick([t for t in self.cfg.int_types if not t.signed] or [U8]), min(d - 1, 1)), USIZE)
        finally:
            self.in_index -= 1

    def expr(self, ty, d):
        self.budget -= 1
        if d <= 0 or self.budget <= 0:
            return self.leaf(ty)
        c = self.cfg
        opts = [("leaf", 2)]
        paths = self.access_paths(ty)
        if paths:
            opts.append(("path", 2))
        opts.append(("if", 1))
        if c.matches:
            opts.append(("match", 0.7))
        opts.append(("block", 0.5))
        if c.calls and self.fn_depth < 2:
            opts.append(("call", 0.6))
        if isinstance(ty, TInt):
            opts += [("arith", 3 + 3 * c.panic_bias), ("bitw", 1.5), ("shift", 0.7 + c.panic_bias), ("un", 0.7),
                     ("cast", 1.2)]
        elif isinstance(ty, TBool):
            opts += [("cmp", 2), ("eq", 1.5), ("logic", 1.5), ("bitw", 0.7), ("un", 0.7), ("cast", 0.3)]
        else:
            opts.append(("construct", 3))
        k = self.wpick(opts)
        saved = (len(self.scopes), self.no_struct, self.fn_depth, self.scopes)
        try:
            return getattr(self, "e_" + k)(ty, d)
        except NoStruct:
            self.scopes = saved[3]
            del self.scopes[saved[0]:]
            self.no_struct, self.fn_depth = saved[1], saved[2]
            if self.no_struct and contains_struct(ty):
                raise
            return self.leaf(ty)

    def e_leaf(self, ty, d):
        return self.leaf(ty)

    def e_path(self, ty, d):
        p = self.pick(self.access_paths(ty))
        if isinstance(p, tuple):
            base = p[1]
            return Index(base, self.index_expr(base.ty.n, d))
        return p

    def e_construct(self, ty, d):
        if self.no_struct and contains_struct(ty):
            raise NoStruct()
        return self.construct(ty, d - 1)

    def e_arith(self, ty, d):
        c = self.cfg
        op = self.wpick([("+", 3), ("-", 3), ("*", 1.5), ("/", 1.2), ("%", 1.2)])
        if op in ("*", "/", "%"):
            if ty.bits <= c.muldiv_bits:
                pass
            elif ty.bits <= c.const_muldiv_bits:
                # one literal operand
                lit = self.int_lit(ty)
                if op != "*" and lit.v == 0 and self.chance(0.7):
                    lit = Lit(ty, 3)
                if op == "*" and lit.v < -1 and not c.neg_const_mul:
                    lit = Lit(ty, -lit.v if -lit.v <= ty.max else 2)
                other = self.expr(ty, d - 1)
                if op == "*" and self.chance(0.5):
                    return self.bin(op, lit, other)
                return self.bin(op, other, lit)
            else:
                op = self.pick(["+", "-"])
        l, r = self.expr(ty, d - 1), self.expr(ty, d - 1)
        if op == "*" and self.chance(0.35):
            # small literal multiplier (the compiler rewrites these to repeated addition); the other
            # operand is sometimes a block with an effect, which must happen exactly once
            small = Lit(ty, self.rng.randint(-1 if ty.signed else 0, ty.bits - 1))  # (-1: the negated form of the rewrite)
            other = r
            if self.chance(0.25):
                # `0 * e` / `1 * e`: the product is known, but a failing operation inside e still has to fail
                small = Lit(ty, self.rng.randint(0, 1))
                if d > 1 and self.chance(0.3 + 0.5 * min(1.0, c.panic_bias)):
                    other = r = self.e_arith(ty, d - 1)
            muts = [v for v in self.vars_of(lambda t, m: m and isinstance(t, TInt)) if v[0] not in self.no_assign]
            if muts and self.chance(0.5):
                # `{ counter += 1; value }`: a non-idempotent effect, visible if it happens more than once
                n, t, _ = self.pick(muts)
                other = Block([Assign(n, t, [], Lit(t, 1), "+")], r)
            elif self.chance(0.3) and self.vars_of(lambda t, m: m):
                other = self.block(ty, d - 1, min_stmts=1)
            l, r = (small, other) if self.chance(0.5) else (other, small)
        if op == "*" and not c.neg_const_mul:
            # avoid the literal-negative-multiplier rewrite (listed known finding of C03)
            if isinstance(l, Lit) and l.v < -1 and -l.v < ty.bits:
                l = Lit(ty, -l.v)
            if isinstance(r, Lit) and r.v < -1 and -r.v < ty.bits:
                r = Lit(ty, -r.v)
        return self.bin(op, l, r)

    def bin(self, op, l, r):
        """Bin(op, l, r); a literal operand sometimes loses its type suffix when the other operand is an expression
        that carries its type itself (variable, cast, access path, call), so that the literal is typed by it"""
        typed = (Var, Cast, Index, TupGet, Field, Call)
        # (not as the left-most token of an index expression: the front end reads `a[5 + i]` as a constant index and
        # reports "Expected ']'" -- a front-end deviation outside the claimed properties, see DESIGN.md section 6)
        if isinstance(l, Lit) and isinstance(l.ty, TInt) and l.suffix and isinstance(r, typed) and not self.in_index and self.chance(0.3):
            l = Lit(l.ty, l.v, suffix=False)
        elif isinstance(r, Lit) and isinstance(r.ty, TInt) and r.suffix and isinstance(l, typed) and self.chance(0.3):
            r = Lit(r.ty, r.v, suffix=False)
        return Bin(op, l, r)

    def e_bitw(self, ty, d):
        return self.bin(self.pick(["&", "|", "^"]), self.expr(ty, d - 1), self.expr(ty, d - 1))

    def e_shift(self, ty, d):
        if self.chance(0.6):
            amt = Lit(U8, self.pick([0, 1, ty.bits - 1, ty.bits, self.rng.randrange(ty.bits), 255, 3]))
        else:
            amt = self.expr(U8, d - 1)
        return Bin(self.pick(["<<", ">>"]), self.expr(ty, d - 1), amt)

    def e_un(self, ty, d):
        if isinstance(ty, TBool) or not ty.signed or self.chance(0.4):
            return Un("!", self.expr(ty, d - 1))
        return Un("-", self.expr(ty, d - 1))

    def e_cast(self, ty, d):
        src = self.rand_scalar()
        return Cast(self.expr(src, d - 1), ty)

    def effect_block(self, e):
        """`{ counter += 1; e }` for some mutable integer variable (a non-idempotent effect that must happen
        exactly once wherever the block is used as an operand), or e itself if there is none"""
        muts = [v for v in self.vars_of(lambda t, m: m and isinstance(t, TInt)) if v[0] not in self.no_assign]
        if not muts:
            return e
        n, t, _ = self.pick(muts)
        return Block([Assign(n, t, [], Lit(t, 1), "+")], e)

    def e_cmp(self, ty, d):
        t = self.rand_int_type()
        l, r = self.expr(t, d - 1), self.expr(t, d - 1)
        if self.chance(0.2):
            if self.chance(0.5):
                l = self.effect_block(l)
            else:
                r = self.effect_block(r)
        return self.bin(self.pick(list(CMP)), l, r)

    def e_eq(self, ty, d):
        t = self.rand_type(1) if self.chance(0.3) else self.rand_scalar()
        if self.no_struct and contains_struct(t):
            t = self.rand_scalar()
        return Bin(self.pick(["==", "!="]), self.expr(t, d - 1), self.expr(t, d - 1))

    def e_logic(self, ty, d):
        return Bin(self.pick(["&&", "||"]), self.expr(BOOL, d - 1), self.expr(BOOL, d - 1))

    def cond(self, d):
        self.no_struct += 1
        try:
            return self.expr(BOOL, d)
        finally:
            self.no_struct -= 1

    def e_if(self, ty, d):
        c = self.cond(d - 1)
        return If(c, self.block(ty, d - 1), self.block(ty, d - 1))

    def e_block(self, ty, d):
        return self.block(ty, d - 1, min_stmts=1)

    def e_call(self, ty, d):
        # create a fresh helper fn returning ty
        np = self.rng.randint(1, 3)
        # parameter names are often names that are also visible at the call site (the callee has its own scope)
        visible = [v[0] for v in self.vars_of(lambda t, m: True) if v[0] != "_" and v[0] not in self.no_shadow]
        self.rng.shuffle(visible)
        names = []
        for _ in range(np):
            if visible and self.chance(0.6):
                names.append(visible.pop())
            else:
                names.append(self.fresh("p"))
        params = [(n, self.rand_type(1), self.chance(0.3)) for n in names]
        name = self.fresh("f")
        saved = (self.scopes, self.no_struct)
        self.scopes, self.no_struct = [{}], 0
        self.fn_depth += 1
        for n, t, m in params:
            self.declare(n, t, m)
        body = self.block(ty, max(1, d - 1), min_stmts=0, own_scope=False)
        self.fn_depth -= 1
        self.scopes, self.no_struct = saved
        self.fns.append(FnDef(name, params, ty, body))
        args = [self.expr(t, d - 1) for _, t, _ in params]
        return Call(name, args, ty)

    def e_match(self, ty, d):
        # scrutinee: a scalar, tuple of scalars, enum, or struct
        kinds = [("int", 3), ("bool", 1), ("tup", 1)]
        if self.enums:
            kinds.append(("enum", 3))
        if self.structs:
            kinds.append(("struct", 1))
        k = self.wpick(kinds)
        if k == "int":
            sty = self.rand_int_type()
        elif k == "bool":
            sty = BOOL
        elif k == "tup":
            sty = TTup([self.rand_scalar() for _ in range(2)])
        elif k == "enum":
            sty = self.pick(self.enums)
        else:
            sty = self.pick(self.structs)
        self.no_struct += 1
        try:
            scrut = self.expr(sty, d - 1)
        except NoStruct:
            self.no_struct -= 1
            return self.leaf(ty)
        self.no_struct -= 1
        arms = []
        for pat in self.arm_patterns(sty):
            self.scopes.append({})
            self.declare_pattern(pat, sty)
            body = self.expr(ty, d - 1)
            self.scopes.pop()
            arms.append((pat, body))
        return Match(scrut, arms, ty)

    # ---------------------------------------------------------------- patterns
    def refutable_pattern(self, ty, d=1):
        """a pattern for ty that may or may not match"""
        if isinstance(ty, TBool):
            return PLit(BOOL, self.rng.randint(0, 1))
        if isinstance(ty, TInt):
            if self.chance(0.15):
                # range from zero, often without suffix (typed by the scrutinee)
                return PRange(ty, 0, self.rng.randint(1, ty.max), True, suffix=self.chance(0.4))
            if self.chance(0.5):
                return PLit(ty, self.int_lit(ty).v, suffix=self.chance(0.7))
            a, b = sorted([self.int_lit(ty).v, self.int_lit(ty).v])
            sfx = self.chance(0.7) or not (a >= 0 or b < 0)
            if a == b or self.chance(0.5):
                return PRange(ty, a, b, True, suffix=sfx)
            return PRange(ty, a, b, False, suffix=sfx)
        if isinstance(ty, TTup):
            return PTup([self.any_pattern(t, d - 1) for t in ty.elems])
        if isinstance(ty, TStruct):
            fs = [(f, self.any_pattern(t, d - 1)) for f, t in ty.fields]
            if len(fs) > 1 and self.chance(0.4):
                keep = sorted(self.rng.sample(range(len(fs)), self.rng.randint(1, len(fs) - 1)))
                return PStruct(ty, [fs[i] for i in keep], rest=True)
            return PStruct(ty, fs)
        if isinstance(ty, TEnum):
            vn, fts = self.pick(ty.variants)
            return PEnum(ty, vn, [self.any_pattern(t, d - 1) for t in fts])
        return PVar(self.fresh("b"))

    def any_pattern(self, ty, d):
        if d < 0 or self.chance(0.5) or is_arr(ty):
            return PVar(self.fresh("b")) if self.chance(0.7) else PVar("_")
        return self.refutable_pattern(ty, d)

    def irrefutable_pattern(self, ty, d=2):
        if d > 0 and self.chance(0.6):
            if isinstance(ty, TTup) and ty.elems:
                return PTup([self.irrefutable_pattern(t, d - 1) for t in ty.elems])
            if isinstance(ty, TStruct):
                fs = [(f, self.irrefutable_pattern(t, d - 1)) for f, t in ty.fields]
                if len(fs) > 1 and self.chance(0.3):
                    keep = sorted(self.rng.sample(range(len(fs)), self.rng.randint(1, len(fs) - 1)))
                    return PStruct(ty, [fs[i] for i in keep], rest=True)
                return PStruct(ty, fs)
            if isinstance(ty, TEnum) and len(ty.variants) == 1:
                vn, fts = ty.variants[0]
                return PEnum(ty, vn, [self.irrefutable_pattern(t, d - 1) for t in fts])
        if self.chance(self._shadow_p):
            # a pattern variable that shadows a visible name (its scope ends with the arm / loop body / block);
            # one name is used at most once per pattern (the set is reset when the finished pattern is declared)
            vs = [v[0] for v in self.vars_of(lambda t, m: True) if v[0] != "_" and v[0] not in self.no_shadow and v[0] not in self._pat_used]
            if vs:
                name = self.pick(vs)
                self._pat_used.add(name)
                return PVar(name)
        return PVar(self.fresh("b")) if self.chance(0.85) else PVar("_")

    def arm_patterns(self, ty):
        """an exhaustive arm list"""
        r = self.rng.random()
        if isinstance(ty, TBool) and r < 0.5:
            ps = [PLit(BOOL, 1), PLit(BOOL, 0)]
            self.rng.shuffle(ps)
            return ps
        if isinstance(ty, TEnum) and r < 0.6:
            ps = []
            vs = list(ty.variants)
            self.rng.shuffle(vs)
            extra = []
            for vn, fts in vs:
                if fts and self.chance(0.3):
                    extra.append(PEnum(ty, vn, [self.any_pattern(t, 1) for t in fts]))
                ps.append(PEnum(ty, vn, [self.irrefutable_pattern(t, 1) for t in fts]))
            return extra + ps
        if isinstance(ty, TInt) and not ty.signed and r < 0.4:
            # partition into ranges
            cuts = sorted(set(self.rng.randint(1, ty.max) for _ in range(self.rng.randint(1, 3))))
            ps = []
            lo = 0
            for cpt in cuts:
                if cpt - 1 == lo and self.chance(0.5):
                    ps.append(PLit(ty, lo))
                elif self.chance(0.5):
                    ps.append(PRange(ty, lo, cpt - 1, True))
                else:
                    ps.append(PRange(ty, lo, cpt, False))
                lo = cpt
            ps.append(PRange(ty, lo, ty.max, True))
            self.rng.shuffle(ps)
            return ps
        n = self.rng.randint(0, 3)
        ps = [self.refutable_pattern(ty) for _ in range(n)]
        ps.append(PVar(self.fresh("b")) if self.chance(0.6) else PVar("_"))
        return ps

    def declare_pattern(self, pat, ty):
        self._pat_used = set()
        self._declare_pattern(pat, ty)

    def _declare_pattern(self, pat, ty):
        if isinstance(pat, PVar):
            if pat.name != "_":
                self.declare(pat.name, ty, False)
        elif isinstance(pat, PTup):
            for p, t in zip(pat.ps, ty.elems):
                self._declare_pattern(p, t)
        elif isinstance(pat, PStruct):
            for f, p in pat.fields:
                self._declare_pattern(p, ty.field_ty(f))
        elif isinstance(pat, PEnum):
            fts = ty.variants[ty.variant_index(pat.variant)][1]
            for p, t in zip(pat.ps, fts):
                self._declare_pattern(p, t)

    # ---------------------------------------------------------------- statements
    def block(self, ty, d, min_stmts=0, own_scope=True):
        if own_scope:
            self.scopes.append({})
        n = self.rng.randint(min_stmts, max(min_stmts, self.cfg.stmts if d > 0 else 1))
        stmts = []
        for _ in range(n):
            if self.budget <= 0:
                break
            st = self.stmt(d)
            if st is not None:
                stmts.append(st)
        e = self.expr(ty, d) if ty != UNIT else None
        if own_scope:
            self.scopes.pop()
        return Block(stmts, e)

    def stmt(self, d):
        c = self.cfg
        opts = [("let", 3), ("letmut", 2)]
        muts = self.vars_of(lambda t, m: m)
        if muts:
            opts.append(("assign", 6 * c.mutation + 1))
            opts.append(("ifstmt", 3 * c.mutation + 0.3))
            if c.loops:
                opts.append(("for", 3 * c.mutation + 0.3))
            if c.matches:
                opts.append(("matchstmt", 1.5 * c.mutation))
            opts.append(("blockstmt", 0.6 * c.mutation))
        k = self.wpick(opts)
        return getattr(self, "s_" + k)(d)

    def s_let(self, d):
        ty = self.rand_type(2)
        e = self.expr(ty, d)
        if self.chance(0.3):
            pat = self.irrefutable_pattern(ty)
        else:
            # sometimes shadow an existing name
            vs = [v for v in self.vars_of(lambda t, m: True) if v[0] not in self.no_shadow]
            name = self.pick(vs)[0] if vs and self.chance(0.2) else self.fresh()
            pat = PVar(name)
        st = Let(pat, e, annot=ty if self.chance(0.3) else None)
        self.declare_pattern(pat, ty)
        return st

    def s_letmut(self, d):
        ty = self.rand_type(2)
        e = self.expr(ty, d)
        vs = [v for v in self.vars_of(lambda t, m: True) if v[0] not in self.no_shadow]
        name = self.pick(vs)[0] if vs and self.chance(0.15) else self.fresh()
        st = LetMut(name, e, annot=ty if self.chance(0.3) else None)
        self.declare(name, ty, True)
        return st

    def s_assign(self, d):
        # the target must not be assigned again inside its own index / value expressions (the order
        # of such effects is not fixed by the guide and Rust rejects most of these programs)
        cands = [v for v in self.vars_of(lambda t, m: m) if v[0] not in self.no_assign]
        if not cands:
            return self.s_let(d)
        n, t, m = self.pick(cands)
        self.no_assign.append(n)
        try:
            return self.s_assign_to(n, t, d)
        finally:
            self.no_assign.pop()

    def s_assign_to(self, n, t, d):
        accs = []
        cur = t
        force_op = False
        while True:
            if isinstance(cur, (TBool, TInt, TEnum)) or self.chance(0.3 * (1 - self.cfg.assign_focus)):
                break
            if is_arr(cur):
                if cur.n == 0:
                    break
                idx = self.index_expr(cur.n, d)
                if any(k == "idx" and not isinstance(i, Lit) for k, i in accs) and self.chance(max(self.cfg.assign_focus, 0.2 + 0.4 * min(1.0, self.cfg.panic_bias))):
                    # a later index expression that can fail itself, after an earlier index that can be out of bounds:
                    # the earlier bounds check comes first
                    idx = Cast(self.e_arith(U8, 1), USIZE)
                fo = self.cfg.assign_focus
                uvars = [v for v in self.vars_of(lambda t, m: m and t is USIZE) if v[0] not in self.no_assign]
                prev = [i for k, i in accs if k == "idx" and isinstance(i, Var) and any(i.name == u[0] for u in uvars)]
                if prev and self.chance(max(0.6 * fo, 0.15)):
                    # a later index expression that assigns to a variable used as an earlier index: the earlier index
                    # has already been evaluated
                    pv = prev[-1]
                    idx = Block([Assign(pv.name, pv.ty, [], Lit(USIZE, 1), "+")], idx)
                    force_op = True
                elif uvars and is_arr(cur.elem) and self.chance(max(0.4 * fo, 0.08)):
                    un, ut, _ = self.pick(uvars)
                    idx = Var(un, ut)
                muts = [v for v in self.vars_of(lambda t, m: m and isinstance(t, TInt)) if v[0] not in self.no_assign]
                if muts and not isinstance(idx, (Var, Block)) and self.chance(0.15):
                    # index expression with an effect: `a[{ counter += 1; i }] op= v` must run it once
                    cn, ct, _ = self.pick(muts)
                    idx = Block([Assign(cn, ct, [], Lit(ct, 1), "+")], idx)
                accs.append(("idx", idx))
                cur = cur.elem
            elif isinstance(cur, TTup):
                if not cur.elems:
                    break
                i = self.rng.randrange(len(cur.elems))
                accs.append(("tup", i))
                cur = cur.elems[i]
            elif isinstance(cur, TStruct):
                f, ft = self.pick(cur.fields)
                accs.append(("fld", f))
                cur = ft
            else:
                break
        op = None
        dyn_idx = any(k == "idx" and not isinstance(i, Lit) for k, i in accs)
        if dyn_idx and not force_op and isinstance(cur, TInt) and self.chance(max(0.6 * self.cfg.assign_focus, 0.15 + 0.35 * min(1.0, self.cfg.panic_bias))):
            # an index that may be out of bounds AND a value that may fail in the same statement: which failure is
            # reported is fixed by the evaluation order
            return Assign(n, t, accs, self.e_arith(cur, max(d, 1)), None)
        if isinstance(cur, TInt) and (force_op or self.chance(0.4)):
            op = self.pick(["+", "-", "^", "&", "|", "<<", ">>"] + (["*", "/", "%"] if cur.bits <= self.cfg.muldiv_bits else []))
        elif isinstance(cur, TBool) and self.chance(0.3):
            op = self.pick(["^", "&", "|"])
        if op in ("<<", ">>"):
            e = Lit(U8, self.rng.randrange(cur.bits + 1)) if self.chance(0.6) else self.expr(U8, d - 1)
        else:
            e = self.expr(cur, d)
            if op == "*" and isinstance(e, Lit) and e.v < -1 and not self.cfg.neg_const_mul:
                e = Lit(cur, 2)
        return Assign(n, t, accs, e, op)

    def unit_block(self, d):
        outer = [nm for nm in self.scopes[-1] if nm != "_" and nm not in self.no_shadow]
        if outer and self.chance(0.12):
            # a block whose ONLY statement is a binding that shadows a variable of the directly enclosing block
            # (a dead binding; it must not leak out of the block)
            self.scopes.append({})
            nm = self.pick(outer)
            ty = self.rand_type(1)
            e = self.expr(ty, min(d, 1))
            st = LetMut(nm, e) if self.chance(0.5) else Let(PVar(nm), e)
            self.scopes.pop()
            return Block([st], None)
        self.scopes.append({})
        n = self.rng.randint(1, 2)
        stmts = [s for s in (self.stmt(d) for _ in range(n)) if s is not None]
        # make sure the last statement is not a bare expression (keeps the block unit-typed)
        stmts.append(self.s_assign(d) if self.vars_of(lambda t, m: m) else self.s_let(d))
        self.scopes.pop()
        return Block(stmts, None)

    def s_blockstmt(self, d):
        """a bare nested block used as a statement"""
        return ExprStmt(self.unit_block(d - 1 if d > 0 else 0))

    def s_ifstmt(self, d):
        if d <= 0:
            return self.s_assign(d)
        c = self.cond(d - 1)
        t = self.unit_block(d - 1)
        f = self.unit_block(d - 1) if self.chance(0.5) else None
        return ExprStmt(If(c, t, f))

    def s_matchstmt(self, d):
        if d <= 0 or not self.enums and self.chance(0.5):
            return self.s_assign(d)
        sty = self.pick(self.enums) if self.enums and self.chance(0.6) else self.rand_int_type()
        self.no_struct += 1
        try:
            scrut = self.expr(sty, d - 1)
        except NoStruct:
            self.no_struct -= 1
            return self.s_assign(d)
        self.no_struct -= 1
        arms = []
        for pat in self.arm_patterns(sty):
            self.scopes.append({})
            self.declare_pattern(pat, sty)
            arms.append((pat, self.unit_block(d - 1)))
            self.scopes.pop()
        return ExprStmt(Match(scrut, arms, UNIT))

    def s_forjoin(self, d):
        """for-join loop over two array literals whose keys are strictly ascending constants (so the
        documented precondition holds by construction) and whose payloads are arbitrary expressions"""
        kty = self.pick([U8, U16])
        pa, pb = self.rand_scalar(), self.rand_scalar()
        ta, tb = TTup([kty, pa]), TTup([kty, pb])
        na, nb = self.rng.randint(1, 3), self.rng.randint(1, 3)
        pool = sorted(self.rng.sample(range(0, 8), min(8, na + nb)))
        ka = sorted(self.rng.sample(pool, na))
        kb = sorted(self.rng.sample(pool, nb))
        self.no_struct += 1
        try:
            a = ArrLit([TupLit([Lit(kty, k), self.expr(pa, d - 1)]) for k in ka], TArr(ta, na))
            b = ArrLit([TupLit([Lit(kty, k), self.expr(pb, d - 1)]) for k in kb], TArr(tb, nb))
        finally:
            self.no_struct -= 1
        self._shadow_p = 0.35  # join-loop patterns that shadow variables of the enclosing blocks
        try:
            pat = self.irrefutable_pattern(TTup([ta, tb]))
        finally:
            self._shadow_p = 0.12
        self.scopes.append({})
        self.declare_pattern(pat, TTup([ta, tb]))
        body = [st for st in (self.stmt(d - 1) for _ in range(self.rng.randint(1, 2))) if st is not None]
        if self.vars_of(lambda t, m: m):
            body.append(self.s_assign(d - 1))
        self.scopes.pop()
        return ForJoin(pat, a, b, body)

    def s_for(self, d):
        if d <= 0:
            return self.s_assign(d)
        if self.chance(0.3):
            return self.s_forjoin(d)
        ety = self.rand_type(1)
        n = self.rng.randint(1, self.cfg.max_arr)
        aty = TArr(ety, n)
        self.no_struct += 1
        try:
            vs = self.vars_of(lambda t, m: is_arr(t) and t.n <= 4)
            if vs and self.chance(0.5):
                nm, aty, _ = self.pick(vs)
                arr = Var(nm, aty)
                ety = aty.elem
            else:
                arr = self.construct(aty, d - 1) if not contains_struct(aty) else self.leaf(aty)
        except NoStruct:
            self.no_struct -= 1
            return self.s_assign(d)
        self.no_struct -= 1
        pat = self.irrefutable_pattern(ety)
        self.scopes.append({})
        self.declare_pattern(pat, ety)
        nst = self.rng.randint(1, 2)
        body = [s for s in (self.stmt(d - 1) for _ in range(nst)) if s is not None]
        if self.vars_of(lambda t, m: m):
            body.append(self.s_assign(d - 1))
        self.scopes.pop()
        return For(pat, arr, body)

    # ---------------------------------------------------------------- program
    def program(self):
        c = self.cfg
        self.make_defs()
        np = self.rng.randint(1, c.max_params)
        params = []
        for _ in range(np):
            t = self.rand_type(2)
            params.append((self.fresh("x"), t, self.chance(0.4)))
        if not any(isinstance(t, (TBool, TInt)) for _, t, _ in params) and self.chance(0.8):
            params.append((self.fresh("x"), self.rand_int_type(), self.chance(0.4)))
        if np == 1 and is_arr(params[0][1]) and self.chance(0.5):
            # avoid the "single array = one party per element" form half of the time
            params.append((self.fresh("x"), self.rand_scalar(), False))
        self.scopes = [{}]
        for n, t, m in params:
            self.declare(n, t, m)
        self.budget = 60
        ret = self.rand_type(2)
        self.scopes.append({})
        stmts = []
        if c.assign_focus:
            # a nested array (or an array of tuples holding arrays) to assign into
            it = self.rand_int_type()
            inner = TArr(it, self.rng.randint(2, 3))
            et = inner if self.chance(0.6) else TTup([self.rand_int_type(), inner])
            aty = TArr(et, self.pick([2, 3, 3, 5]))
            nm = self.fresh("arr")
            stmts.append(LetMut(nm, self.construct(aty, 1)))
            self.declare(nm, aty, True)
            self.no_shadow.add(nm)
            kn = self.fresh("k")
            # a small mutable index variable (0 or 1, input-dependent half of the time)
            stmts.append(LetMut(kn, Bin("&", self.expr(USIZE, 1), Lit(USIZE, 1)) if self.chance(0.5) else Lit(USIZE, self.rng.randint(0, 1))))
            self.declare(kn, USIZE, True)
        for _ in range(self.rng.randint(1, c.stmts + 1)):
            st = self.stmt(c.depth)
            if st is not None:
                stmts.append(st)
            self.budget = max(self.budget, 20)
        if c.ret_all_vars or self.chance(0.5):
            vs = self.vars_of(lambda t, m: True)
            vs = [v for v in vs if size_of(v[1]) > 0][:6]
            if len(vs) >= 2:
                e = TupLit([Var(n, t) for n, t, m in vs])
            elif vs:
                e = Var(vs[0][0], vs[0][1])
            else:
                e = self.expr(ret, c.depth)
        else:
            e = self.expr(ret, c.depth)
        self.scopes.pop()
        main = FnDef("main", params, e.ty, Block(stmts, e), pub=True)
        return Program(self.fns + [main], self.structs, self.enums)


class NoStruct(Exception):
    pass


def called_fns(node, acc):
    if isinstance(node, Call):
        acc.add(node.fn)
    if isinstance(node, (list, tuple)):
        for x in node:
            called_fns(x, acc)
    elif isinstance(node, Node):
        for v in vars(node).values():
            if isinstance(v, (Node, list, tuple)):
                called_fns(v, acc)


def prune_unused(prog):
    """drop helper fns that ended up unreferenced (an unused private fn is a type error)"""
    used = {"main"}
    work = ["main"]
    while work:
        f = prog.fn(work.pop())
        acc = set()
        called_fns(f.body, acc)
        for n in acc:
            if n not in used:
                used.add(n)
                work.append(n)
    prog.fns = [f for f in prog.fns if f.name in used]
    return prog


def generate(seed, cfg=None):
    for attempt in range(50):
        g = Gen(seed * 1000 + attempt, cfg)
        try:
            p = g.program()
        except NoStruct:
            continue
        if size_of(p.fn("main").ret) == 0:
            continue
        if sum(size_of(t) for _, t, _ in p.fn("main").params) == 0:
            continue
        return prune_unused(p)
    raise RuntimeError("generator failed")
