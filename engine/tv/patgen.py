"""Arm-list generator for C08 / C17: exhaustive covers built by recursive partitioning, then perturbed
(dropped arm, bound shifted by one, shuffled, extra arms) so that exhaustive and non-exhaustive lists
meet at the boundaries. The solver, not the generator, decides which is which."""
import random, re
from lang import *


NARROW_RANGES = {(t.min, t.max) for t in INT_TYPES}


class PatGen:
    def __init__(self, rng):
        self.rng = rng
        self.n = 0

    def chance(self, p):
        return self.rng.random() < p

    def var(self):
        self.n += 1
        return PVar("b%d" % self.n)

    def wild(self):
        return self.var() if self.chance(0.3) else PVar("_")

    def points(self, ty):
        pts = [ty.min, ty.min + 1, ty.max - 1, ty.max, 0, 1, 2]
        if ty.signed:
            pts += [-1, -2]
        pts += [self.rng.randint(ty.min, ty.max) for _ in range(3)]
        # the ends of the narrower integer types (a piece may then span exactly the range of such a type)
        for b in (8, 16, 32):
            if b < ty.bits:
                pts += [1 << b, 1 << b] if not ty.signed else [1 << (b - 1), -(1 << (b - 1)), 1 << b]
        return [p for p in pts if ty.min <= p <= ty.max]

    def int_cover(self, ty):
        r = self.rng.random()
        if r < 0.15:
            return [self.wild()]
        k = self.rng.randint(1, 3)
        cuts = sorted(set(self.rng.choice(self.points(ty)) for _ in range(k)) - {ty.min})
        arms = []
        lo = ty.min
        for c in cuts + [None]:
            hi = (c - 1) if c is not None else ty.max  # inclusive upper end of this piece
            if hi < lo:
                continue
            if hi == lo and self.chance(0.7):
                arms.append(PLit(ty, lo))
            elif c is not None and self.chance(0.4) and c > lo:
                arms.append(PRange(ty, lo, c, False))
            else:
                arms.append(PRange(ty, lo, hi, True))
            lo = hi + 1
        if self.chance(0.3):
            arms[-1] = self.wild()
        return arms

    def cover(self, ty, depth=2):
        if isinstance(ty, TBool):
            r = self.rng.random()
            if r < 0.2:
                return [self.wild()]
            ps = [PLit(BOOL, 1), PLit(BOOL, 0)]
            if self.chance(0.5):
                ps.reverse()
            if self.chance(0.2):
                ps[-1] = self.wild()
            return ps
        if isinstance(ty, TInt):
            return self.int_cover(ty)
        if is_arr(ty):
            return [self.wild()]
        if depth <= 0 or self.chance(0.1):
            return [self.wild()]
        if isinstance(ty, TTup):
            return [PTup(ps) for ps in self.product_cover(ty.elems, depth)]
        if isinstance(ty, TStruct):
            out = []
            for ps in self.product_cover([t for _, t in ty.fields], depth):
                fields = list(zip([f for f, _ in ty.fields], ps))
                if len(fields) > 1 and self.chance(0.3):
                    # drop wildcard fields behind `..`
                    kept = [(f, p) for f, p in fields if not (isinstance(p, PVar) and p.name == "_")]
                    if kept and len(kept) < len(fields):
                        out.append(PStruct(ty, kept, rest=True))
                        continue
                out.append(PStruct(ty, fields))
            return out
        if isinstance(ty, TEnum):
            out = []
            vs = list(ty.variants)
            if self.chance(0.5):
                self.rng.shuffle(vs)
            for vn, fts in vs:
                if not fts:
                    out.append(PEnum(ty, vn, []))
                else:
                    for ps in self.product_cover(fts, depth):
                        out.append(PEnum(ty, vn, ps))
            if self.chance(0.2) and len(out) > 1:
                out = out[:-1] + [self.wild()]
            return out
        raise TypeError(ty)

    def product_cover(self, tys, depth):
        """list of pattern tuples covering the product type"""
        n = len(tys)
        if n == 0:
            return [[]]
        i = self.rng.randrange(n)
        ci = self.cover(tys[i], depth - 1)
        out = []
        if n > 1 and self.chance(0.4):
            j = self.rng.choice([k for k in range(n) if k != i])
            for p in ci:
                cj = self.cover(tys[j], depth - 1)
                for q in cj:
                    row = [self.wild() for _ in range(n)]
                    row[i], row[j] = p, q
                    out.append(row)
        else:
            for p in ci:
                row = [self.wild() for _ in range(n)]
                row[i] = p
                out.append(row)
        return out[:8]

    def shift(self, p):
        """shift one integer bound inside pattern p by one; returns True if something changed"""
        if isinstance(p, PRange):
            d = self.rng.choice([-1, 1])
            if self.chance(0.5):
                lo = p.lo + d
                if p.ty.min <= lo and lo < (p.hi if not p.inclusive else p.hi + 1):
                    p.lo = lo
                    return True
            hi = p.hi + d
            top = p.ty.max if p.inclusive else p.ty.max + 0
            if hi <= top and hi >= p.ty.min and (hi > p.lo if not p.inclusive else hi >= p.lo):
                p.hi = hi
                return True
            return False
        if isinstance(p, PLit) and isinstance(p.ty, TInt):
            v = p.v + self.rng.choice([-1, 1])
            if p.ty.min <= v <= p.ty.max:
                p.v = v
                return True
            return False
        subs = []
        if isinstance(p, PTup):
            subs = p.ps
        elif isinstance(p, PStruct):
            subs = [q for _, q in p.fields]
        elif isinstance(p, PEnum):
            subs = p.ps
        subs = list(subs)
        self.rng.shuffle(subs)
        for q in subs:
            if self.shift(q):
                return True
        return False

    def unsuffix(self, p):
        """drop the type suffix of some literals / ranges (only where the front end can still read them:
        a range needs both ends of the same token kind, i.e. both non-negative or both negative)"""
        if isinstance(p, PLit) and isinstance(p.ty, TInt):
            if self.chance(0.35):
                p.suffix = False
            elif self.chance(0.12):
                self.alien_suffix(p, p.v, p.v)
        elif isinstance(p, PRange):
            if self.chance(0.35) and (p.lo >= 0 or p.hi < 0):
                p.suffix = False
            elif self.chance(0.12) or (p.lo, p.hi if p.inclusive else p.hi - 1) in NARROW_RANGES and self.chance(0.6):
                self.alien_suffix(p, p.lo, p.hi if p.inclusive else p.hi - 1)
                if not p.inclusive and getattr(p, "sfx_ty", None) is not None and p.hi > p.sfx_ty.max:
                    del p.sfx_ty  # the exclusive end itself must be writable in the suffix type
        elif isinstance(p, PTup):
            for q in p.ps:
                self.unsuffix(q)
        elif isinstance(p, PStruct):
            for _, q in p.fields:
                self.unsuffix(q)
        elif isinstance(p, PEnum):
            for q in p.ps:
                self.unsuffix(q)

    def alien_suffix(self, p, lo, hi):
        """write the literals with the suffix of another integer type that can hold them (preferably one whose own
        MIN / MAX coincide with a bound): the pattern still denotes the same numbers for the scrutinee's type"""
        # (a signed-suffixed literal is a type error against an unsigned scrutinee; the other combinations are accepted)
        cands = [t for t in INT_TYPES if t.name != p.ty.name and t.min <= lo and hi <= t.max and (p.ty.signed or not t.signed)]
        if not cands:
            return
        both = [t for t in cands if t.min == lo and t.max == hi]
        edge = [t for t in cands if t.min == lo or t.max == hi]
        p.sfx_ty = self.rng.choice(both if both else (edge if edge and self.chance(0.7) else cands))

    def arms(self, ty):
        arms = self._arms(ty)
        for a in arms:
            self.unsuffix(a)
        return arms

    def _arms(self, ty):
        arms = self.cover(ty)
        r = self.rng.random()
        if r < 0.25 and len(arms) > 1:
            del arms[self.rng.randrange(len(arms))]
        elif r < 0.5:
            self.shift(self.rng.choice(arms))
        if self.chance(0.3):
            extra = self.cover(ty)
            arms.insert(self.rng.randrange(len(arms) + 1), self.rng.choice(extra))
        if self.chance(0.3):
            self.rng.shuffle(arms)
        if self.chance(0.1):
            arms.insert(self.rng.randrange(len(arms) + 1), self.wild())
        return arms[:8]


def bound_vars(p, ty, acc):
    if isinstance(p, PVar):
        if p.name != "_":
            acc.append((p.name, ty))
    elif isinstance(p, PTup):
        for q, t in zip(p.ps, ty.elems):
            bound_vars(q, t, acc)
    elif isinstance(p, PStruct):
        for f, q in p.fields:
            bound_vars(q, ty.field_ty(f), acc)
    elif isinstance(p, PEnum):
        for q, t in zip(p.ps, ty.variants[ty.variant_index(p.variant)][1]):
            bound_vars(q, t, acc)
    return acc


# ---------------------------------------------------------------- witness parser (type directed)
class WitnessError(Exception):
    pass


def parse_witness(text, ty):
    p, i = _pw(text.strip(), 0, ty)
    if text.strip()[i:].strip():
        raise WitnessError("trailing text in witness %r" % text)
    return p


def _ws(s, i):
    while i < len(s) and s[i] == " ":
        i += 1
    return i


_num = re.compile(r"(-?\d+)([a-z0-9]*)")


def _pw(s, i, ty):
    i = _ws(s, i)
    if s.startswith("_", i):
        return PVar("_"), i + 1
    if isinstance(ty, TBool):
        if s.startswith("true", i):
            return PLit(BOOL, 1), i + 4
        if s.startswith("false", i):
            return PLit(BOOL, 0), i + 5
        raise WitnessError("expected bool pattern at %r" % s[i:])
    if isinstance(ty, TInt):
        m = _num.match(s, i)
        if not m:
            raise WitnessError("expected number at %r" % s[i:])
        lo = int(m.group(1))
        i = m.end()
        if s.startswith("..=", i):
            m2 = _num.match(s, i + 3)
            if not m2:
                raise WitnessError("expected range end at %r" % s[i:])
            return PRange(ty, lo, int(m2.group(1)), True), m2.end()
        return PLit(ty, lo), i
    if isinstance(ty, TTup):
        if not s.startswith("(", i):
            raise WitnessError("expected ( at %r" % s[i:])
        i += 1
        ps = []
        for k, t in enumerate(ty.elems):
            p, i = _pw(s, i, t)
            ps.append(p)
            i = _ws(s, i)
            if k + 1 < len(ty.elems):
                if not s.startswith(",", i):
                    raise WitnessError("expected , at %r" % s[i:])
                i += 1
        i = _ws(s, i)
        if not s.startswith(")", i):
            raise WitnessError("expected ) at %r" % s[i:])
        return PTup(ps), i + 1
    if isinstance(ty, TStruct):
        head = ty.name + " {"
        if not s.startswith(head, i):
            raise WitnessError("expected struct pattern at %r" % s[i:])
        i += len(head)
        fields = []
        rest = False
        while True:
            i = _ws(s, i)
            if s.startswith("}", i):
                i += 1
                break
            if s.startswith("..", i):
                rest = True
                i += 2
                continue
            m = re.compile(r"([A-Za-z_][A-Za-z_0-9]*)\s*:").match(s, i)
            if not m:
                raise WitnessError("expected field at %r" % s[i:])
            f = m.group(1)
            p, i = _pw(s, m.end(), ty.field_ty(f))
            fields.append((f, p))
            i = _ws(s, i)
            if s.startswith(",", i):
                i += 1
        return PStruct(ty, fields, rest=rest or len(fields) < len(ty.fields)), i
    if isinstance(ty, TEnum):
        head = ty.name + "::"
        if not s.startswith(head, i):
            raise WitnessError("expected enum pattern at %r" % s[i:])
        i += len(head)
        m = re.compile(r"[A-Za-z_][A-Za-z_0-9]*").match(s, i)
        vn = m.group(0)
        i = m.end()
        fts = ty.variants[ty.variant_index(vn)][1]
        ps = []
        if s.startswith("(", i):
            i += 1
            for k, t in enumerate(fts):
                p, i = _pw(s, i, t)
                ps.append(p)
                i = _ws(s, i)
                if k + 1 < len(fts):
                    if not s.startswith(",", i):
                        raise WitnessError("expected , at %r" % s[i:])
                    i += 1
            i = _ws(s, i)
            if not s.startswith(")", i):
                raise WitnessError("expected ) at %r" % s[i:])
            i += 1
        elif fts:
            raise WitnessError("variant %s needs fields" % vn)
        return PEnum(ty, vn, ps), i
    if is_arr(ty):
        raise WitnessError("array pattern %r" % s[i:])
    raise WitnessError("unsupported type")
