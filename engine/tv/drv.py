"""Client for the Rust driver (real garble_lang, rebuilt from /repo's working tree)."""
import os, subprocess, sys, threading, time, select

VERIF = os.path.dirname(os.path.dirname(os.path.dirname(os.path.abspath(__file__))))
BUILD = os.path.join(VERIF, "build")
DRIVER_DIR = os.path.join(VERIF, "engine", "driver")
DRIVER_BIN = os.path.join(BUILD, "driver-target", "release", "verif-driver")


class DriverError(Exception):
    pass


class DriverTimeout(DriverError):
    pass


def build_driver(quiet=True):
    """(Re)build the driver against /repo's current working tree. Returns wall seconds."""
    t = time.time()
    env = dict(os.environ)
    env["CARGO_NET_OFFLINE"] = "true"
    env["CARGO_TARGET_DIR"] = os.path.join(BUILD, "driver-target")
    os.makedirs(BUILD, exist_ok=True)
    # cargo's fingerprinting of the path dependency picks up any edited source under /repo
    p = subprocess.run(["cargo", "build", "--release", "--offline"], cwd=DRIVER_DIR, env=env,
                       stdout=subprocess.PIPE, stderr=subprocess.STDOUT, text=True)
    if p.returncode != 0:
        sys.stderr.write(p.stdout)
        raise DriverError("driver build failed")
    return time.time() - t


def hx(s):
    b = s.encode()
    return b.hex() if b else "-"


def unhx(s):
    return "" if s == "-" else bytes.fromhex(s).decode(errors="replace")


class Circuit:
    """SSA circuit: inputs (bits per party), gates [(kind, a, b)], outputs (wire indices)."""
    __slots__ = ("inputs", "gates", "outputs", "text")

    def __init__(self, inputs, gates, outputs, text=None):
        self.inputs, self.gates, self.outputs, self.text = inputs, gates, outputs, text

    @staticmethod
    def parse(text):
        inputs, gates, outputs = [], [], []
        for part in text.split("|"):
            k, v = part[:2], part[2:]
            if k == "i:":
                inputs = [int(x) for x in v.split(",")] if v else []
            elif k == "o:":
                outputs = [int(x) for x in v.split(",")] if v else []
            elif k == "g:":
                if v:
                    for g in v.split(","):
                        t = g[0]
                        if t == "n":
                            gates.append(("n", int(g[1:]), -1))
                        else:
                            a, b = g[1:].split(".")
                            gates.append((t, int(a), int(b)))
        return Circuit(inputs, gates, outputs, text)

    def to_text(self):
        gs = ",".join(("n%d" % a) if k == "n" else "%s%d.%d" % (k, a, b) for k, a, b in self.gates)
        return "i:%s|g:%s|o:%s" % (",".join(map(str, self.inputs)), gs, ",".join(map(str, self.outputs)))

    @property
    def n_inputs(self):
        return sum(self.inputs)

    def and_count(self):
        return sum(1 for g in self.gates if g[0] == "a")


class RegCircuit:
    __slots__ = ("inputs", "insts", "outputs", "max_reg", "and_ops", "text")

    @staticmethod
    def parse(text):
        c = RegCircuit()
        c.text = text
        c.inputs, c.insts, c.outputs, c.max_reg, c.and_ops = [], [], [], 0, 0
        for part in text.split("|"):
            k, v = part[:2], part[2:]
            if k == "i:":
                c.inputs = [int(x) for x in v.split(",")] if v else []
            elif k == "o:":
                c.outputs = [int(x) for x in v.split(",")] if v else []
            elif k == "r:":
                c.max_reg = int(v)
            elif k == "n:":
                c.and_ops = int(v)
            elif k == "p:":
                if v:
                    for g in v.split(","):
                        f = [int(x) for x in g[1:].split(".")]
                        c.insts.append((g[0],) + tuple(f))
        return c


class Driver:
    """One driver process. Requests are synchronous; a deadline kills and restarts the process."""

    def __init__(self):
        self.p = None
        self.start()

    def start(self):
        self.p = subprocess.Popen([DRIVER_BIN], stdin=subprocess.PIPE, stdout=subprocess.PIPE,
                                  stderr=subprocess.DEVNULL, bufsize=0)
        self._buf = b""

    def close(self):
        if self.p:
            try:
                self.p.kill()
                self.p.wait()
            except Exception:
                pass
            self.p = None

    def _readline(self, deadline):
        fd = self.p.stdout.fileno()
        while b"\n" not in self._buf:
            left = deadline - time.time()
            if left <= 0:
                raise DriverTimeout()
            r, _, _ = select.select([fd], [], [], min(left, 1.0))
            if r:
                chunk = os.read(fd, 1 << 20)
                if not chunk:
                    raise DriverError("driver died")
                self._buf += chunk
        line, self._buf = self._buf.split(b"\n", 1)
        return line.decode()

    def req(self, *fields, timeout=120.0):
        line = "\t".join(str(f) for f in fields) + "\n"
        try:
            self.p.stdin.write(line.encode())
            self.p.stdin.flush()
            resp = self._readline(time.time() + timeout)
        except DriverTimeout:
            self.close()
            self.start()
            return ["timeout"]
        except (BrokenPipeError, DriverError):
            self.close()
            self.start()
            return ["died"]
        return resp.split("\t")

    # --- convenience wrappers -------------------------------------------------
    def check(self, src, timeout=30.0):
        """-> ('ok',) | ('err', phase, [(msg, span, kind)]) | ('panic', msg) | ('timeout',)"""
        r = self.req("check", hx(src), timeout=timeout)
        return self._decode_status(r)

    def _decode_status(self, r):
        if r[0] == "ok":
            return ("ok",) + tuple(r[1:])
        if r[0] == "err":
            phase = r[1]
            errs = []
            for item in r[3:]:
                parts = item.split("|")
                msg = unhx(parts[0])
                span = tuple(int(x) for x in parts[1].split(",")) if len(parts) > 1 and "," in parts[1] else None
                kind = parts[2] if len(parts) > 2 else (unhx(parts[1]) if len(parts) > 1 and span is None else "")
                errs.append((msg, span, kind))
            return ("err", phase, errs)
        if r[0] == "panic":
            return ("panic", unhx(r[1]))
        return (r[0],)

    def compile(self, src, dedup=True, consts="-", timeout=120.0):
        """-> ('ok', id, Circuit, validity, param_types, ret_type, ands) or error tuple as check()."""
        r = self.req("compile", "1" if dedup else "0", hx(src), consts, timeout=timeout)
        if r[0] == "ok":
            return ("ok", int(r[1]), Circuit.parse(r[2]), r[3], unhx(r[4]).split(";"), unhx(r[5]), int(r[6]))
        return self._decode_status(r)

    def compile_reg(self, src, dedup=True, consts="-", timeout=120.0):
        r = self.req("compilereg", "1" if dedup else "0", hx(src), consts, timeout=timeout)
        if r[0] == "ok":
            return ("ok", RegCircuit.parse(r[1]), r[2], int(r[3]), int(r[4]))
        return self._decode_status(r)

    @staticmethod
    def fmt_inputs(parties):
        """parties: list of lists of 0/1"""
        return ",".join(("".join(str(int(b)) for b in p) if p else "-") for p in parties)

    def eval(self, cid, parties):
        r = self.req("eval", cid, self.fmt_inputs(parties))
        if r[0] != "ok":
            return None
        return [] if r[1] == "-" else [int(c) for c in r[1]]

    def evalc(self, circuit_text, parties):
        r = self.req("evalc", circuit_text, self.fmt_inputs(parties))
        if r[0] != "ok":
            return (r[0], unhx(r[1]) if len(r) > 1 else "")
        return [] if r[1] == "-" else [int(c) for c in r[1]]

    def evalr(self, reg_text, parties):
        r = self.req("evalr", reg_text, self.fmt_inputs(parties))
        if r[0] != "ok":
            return (r[0], unhx(r[1]) if len(r) > 1 else "")
        return [] if r[1] == "-" else [int(c) for c in r[1]]

    def evallit(self, cid, texts):
        """Evaluator::parse_literal for every text, then run: ('ok', printed result) / ('err', stage, message)"""
        r = self.req("evallit", cid, *[hx(t) for t in texts])
        return tuple(r[:2]) if r[0] == "err" else (r[0], unhx(r[1]) if len(r) > 1 else "")

    def toreg(self, cid):
        r = self.req("toreg", cid)
        if r[0] != "ok":
            return self._decode_status(r)
        return ("ok", RegCircuit.parse(r[1]), r[2])

    def toregc(self, circuit_text):
        r = self.req("toregc", circuit_text)
        if r[0] != "ok":
            return self._decode_status(r)
        return ("ok", RegCircuit.parse(r[1]), r[2])

    def drop(self, cid):
        self.req("drop", cid)

    def reset(self):
        self.req("reset")
