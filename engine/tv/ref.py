"""Reference semantics of Garble programs over z3 terms (written from the language guide:
Rust-like, by-value, checked fixed-width integer arithmetic, first failure wins).

Values:  bool -> z3 Bool ; integers -> z3 BitVec(bits) ; arrays/tuples -> Python lists ;
structs -> dict field->value ; enums -> EnumVal(tag, {variant: [field values]}).
"""
import z3
from lang import *

OVERFLOW, DIVZERO, OOB = 1, 2, 3
SITE_BITS = 16


class EnumVal:
    __slots__ = ("ty", "tag", "fields")

    def __init__(self, ty, tag, fields):
        self.ty, self.tag, self.fields = ty, tag, fields


def bv(v, bits):
    return z3.BitVecVal(v, bits)


def zero_value(ty):
    if isinstance(ty, TBool):
        return z3.BoolVal(False)
    if isinstance(ty, TInt):
        return bv(0, ty.bits)
    if is_arr(ty):
        return [zero_value(ty.elem) for _ in range(ty.n)]
    if isinstance(ty, TTup):
        return [zero_value(t) for t in ty.elems]
    if isinstance(ty, TStruct):
        return {f: zero_value(t) for f, t in ty.fields}
    if isinstance(ty, TEnum):
        return EnumVal(ty, bv(0, max(ty.tag_bits, 1)), {vn: [zero_value(t) for t in fs] for vn, fs in ty.variants})
    raise TypeError(ty)


def ite(ty, c, a, b):
    if a is b:
        return a
    if isinstance(ty, (TBool, TInt)):
        return z3.If(c, a, b)
    if is_arr(ty):
        return [ite(ty.elem, c, x, y) for x, y in zip(a, b)]
    if isinstance(ty, TTup):
        return [ite(t, c, x, y) for t, x, y in zip(ty.elems, a, b)]
    if isinstance(ty, TStruct):
        return {f: ite(t, c, a[f], b[f]) for f, t in ty.fields}
    if isinstance(ty, TEnum):
        return EnumVal(ty, z3.If(c, a.tag, b.tag),
                       {vn: [ite(t, c, x, y) for t, x, y in zip(fs, a.fields[vn], b.fields[vn])]
                        for vn, fs in ty.variants})
    raise TypeError(ty)


def conj(xs):
    xs = [x for x in xs if not z3.is_true(x)]
    if not xs:
        return z3.BoolVal(True)
    return z3.And(*xs) if len(xs) > 1 else xs[0]


def disj(xs):
    xs = [x for x in xs if not z3.is_false(x)]
    if not xs:
        return z3.BoolVal(False)
    return z3.Or(*xs) if len(xs) > 1 else xs[0]


def sem_eq(ty, a, b):
    if isinstance(ty, (TBool, TInt)):
        return a == b
    if is_arr(ty):
        return conj([sem_eq(ty.elem, x, y) for x, y in zip(a, b)])
    if isinstance(ty, TTup):
        return conj([sem_eq(t, x, y) for t, x, y in zip(ty.elems, a, b)])
    if isinstance(ty, TStruct):
        return conj([sem_eq(t, a[f], b[f]) for f, t in ty.fields])
    if isinstance(ty, TEnum):
        cs = [a.tag == b.tag]
        for i, (vn, fs) in enumerate(ty.variants):
            if fs:
                cs.append(z3.Implies(a.tag == bv(i, max(ty.tag_bits, 1)),
                                     conj([sem_eq(t, x, y) for t, x, y in zip(fs, a.fields[vn], b.fields[vn])])))
        return conj(cs)
    raise TypeError(ty)


def slice_bv(x, total, off, n):
    """n bits starting at offset `off` from the MSB of a `total`-bit vector"""
    return z3.Extract(total - 1 - off, total - off - n, x)


def decode(ty, x, assume=None):
    """bit-vector of size_of(ty) bits (documented layout) -> value. With `assume` (a list), the
    validity constraints of the encoding (enum tag in range, zero padding) are appended."""
    n = size_of(ty)
    if isinstance(ty, TBool):
        return x == bv(1, 1)
    if isinstance(ty, TInt):
        return x
    if is_arr(ty):
        es = size_of(ty.elem)
        return [decode(ty.elem, slice_bv(x, n, i * es, es), assume) if es else zero_value(ty.elem) for i in range(ty.n)]
    if isinstance(ty, TTup):
        out, off = [], 0
        for t in ty.elems:
            s = size_of(t)
            out.append(decode(t, slice_bv(x, n, off, s), assume) if s else zero_value(t))
            off += s
        return out
    if isinstance(ty, TStruct):
        out, off = {}, 0
        for f, t in ty.fields:
            s = size_of(t)
            out[f] = decode(t, slice_bv(x, n, off, s), assume) if s else zero_value(t)
            off += s
        return out
    if isinstance(ty, TEnum):
        tb = ty.tag_bits
        tag = slice_bv(x, n, 0, tb) if tb else bv(0, 1)
        fields = {}
        valid = []
        for i, (vn, fs) in enumerate(ty.variants):
            off = tb
            vals = []
            sub = []
            for t in fs:
                s = size_of(t)
                vals.append(decode(t, slice_bv(x, n, off, s), sub) if s else zero_value(t))
                off += s
            fields[vn] = vals
            if assume is not None:
                c = list(sub)
                if off < n:
                    c.append(slice_bv(x, n, off, n - off) == bv(0, n - off))
                valid.append(z3.And(tag == bv(i, max(tb, 1)), conj(c)))
        if assume is not None:
            assume.append(disj(valid))
        return EnumVal(ty, tag, fields)
    raise TypeError(ty)


def encode(ty, v):
    """value -> bit-vector in the documented layout (None for zero-sized types)"""
    if isinstance(ty, TBool):
        return z3.If(v, bv(1, 1), bv(0, 1))
    if isinstance(ty, TInt):
        return v
    if is_arr(ty):
        parts = [encode(ty.elem, x) for x in v]
    elif isinstance(ty, TTup):
        parts = [encode(t, x) for t, x in zip(ty.elems, v)]
    elif isinstance(ty, TStruct):
        parts = [encode(t, v[f]) for f, t in ty.fields]
    elif isinstance(ty, TEnum):
        n = size_of(ty)
        tb = ty.tag_bits
        pay = n - tb
        payload = None
        if pay:
            payload = bv(0, pay)
            for i, (vn, fs) in reversed(list(enumerate(ty.variants))):
                ps = [encode(t, x) for t, x in zip(fs, v.fields[vn])]
                ps = [p for p in ps if p is not None]
                used = sum(p.size() for p in ps)
                if used < pay:
                    ps.append(bv(0, pay - used))
                cat = z3.Concat(*ps) if len(ps) > 1 else ps[0]
                payload = z3.If(v.tag == bv(i, max(tb, 1)), cat, payload)
        parts = [v.tag if tb else None, payload]
    else:
        raise TypeError(ty)
    parts = [p for p in parts if p is not None]
    if not parts:
        return None
    return z3.Concat(*parts) if len(parts) > 1 else parts[0]


# ------------------------------------------------------------------ operator semantics
def widen(ty, x, bits):
    return z3.SignExt(bits, x) if ty.signed else z3.ZeroExt(bits, x)


def arith(op, ty, x, y):
    """-> (result, [(fail_cond, reason)], dont_care_cond or None)"""
    n = ty.bits
    if op in ("+", "-", "*"):
        xw, yw = widen(ty, x, n), widen(ty, y, n)
        rw = xw + yw if op == "+" else (xw - yw if op == "-" else xw * yw)
        r = z3.Extract(n - 1, 0, rw)
        return r, [(rw != widen(ty, r, n), OVERFLOW)], None
    if op in ("/", "%"):
        zero = y == bv(0, n)
        fails = [(zero, DIVZERO)]
        dc = None
        if ty.signed:
            ovf = z3.And(x == bv(ty.min, n), y == bv(-1, n))
            if op == "/":
                fails.append((ovf, OVERFLOW))
                r = x / y
            else:
                dc = ovf  # MIN % -1: either outcome is acceptable
                r = z3.SRem(x, y)
        else:
            r = z3.UDiv(x, y) if op == "/" else z3.URem(x, y)
        return r, fails, dc
    raise ValueError(op)


def shift(op, ty, x, y):
    """y: 8-bit unsigned amount"""
    n = ty.bits
    fail = z3.UGE(y, bv(n, 8))
    amt = z3.ZeroExt(n - 8, y) if n > 8 else y
    if op == "<<":
        r = x << amt
    elif ty.signed:
        r = x >> amt
    else:
        r = z3.LShR(x, amt)
    return r, [(fail, OVERFLOW)]


def compare(op, ty, x, y):
    if ty.signed:
        return {"<": x < y, ">": x > y, "<=": x <= y, ">=": x >= y}[op]
    return {"<": z3.ULT(x, y), ">": z3.UGT(x, y), "<=": z3.ULE(x, y), ">=": z3.UGE(x, y)}[op]


def cast(src, dst, x):
    if src == dst:
        return x
    if isinstance(src, TBool):
        if isinstance(dst, TBool):
            return x
        return z3.If(x, bv(1, dst.bits), bv(0, dst.bits))
    if isinstance(dst, TBool):
        return z3.Extract(0, 0, x) == bv(1, 1)
    if dst.bits == src.bits:
        return x
    if dst.bits < src.bits:
        return z3.Extract(dst.bits - 1, 0, x)
    return widen(src, x, dst.bits - src.bits)


# ------------------------------------------------------------------ interpreter
class Env:
    def __init__(self, scopes=None):
        self.scopes = scopes if scopes is not None else [{}]

    def clone(self):
        return Env([dict(s) for s in self.scopes])

    def push(self):
        self.scopes.append({})

    def pop(self):
        self.scopes.pop()

    def let(self, name, ty, v):
        self.scopes[-1][name] = (ty, v)

    def get(self, name):
        for s in reversed(self.scopes):
            if name in s:
                return s[name]
        raise KeyError(name)

    def set(self, name, v):
        for s in reversed(self.scopes):
            if name in s:
                s[name] = (s[name][0], v)
                return
        raise KeyError(name)

    @staticmethod
    def merge(c, a, b):
        """variables of a where c else b (same scope structure; names of b's scopes)"""
        out = []
        for sa, sb in zip(a.scopes, b.scopes):
            d = {}
            for k, (ty, vb) in sb.items():
                va = sa[k][1] if k in sa else vb
                d[k] = (ty, ite(ty, c, va, vb))
            out.append(d)
        return Env(out)


class Interp:
    def __init__(self, prog, const_values=None):
        self.prog = prog
        self.consts = const_values or {}  # name -> (ty, z3 value)
        self.panicked = z3.BoolVal(False)
        self.site = bv(0, SITE_BITS)
        self.sites = [None]  # id -> (reason, span)
        self.amb = z3.BoolVal(False)
        self.dontcare = z3.BoolVal(False)
        self.watch = []
        self.assume = []
        self.T = z3.BoolVal(True)
        self.nsites = 0

    # -- panic bookkeeping
    def fail(self, pc, cond, reason, span):
        if z3.is_false(cond):
            return
        c = z3.And(pc, cond) if not z3.is_true(pc) else cond
        sid = len(self.sites)
        self.sites.append((reason, span))
        self.site = z3.If(z3.And(z3.Not(self.panicked), c), bv(sid, SITE_BITS), self.site)
        self.panicked = z3.Or(self.panicked, c)
        for w in self.watch:
            w[0] = z3.Or(w[0], c)

    def record_term(self):
        """160-bit (reason, span) record of the first failing site, as a term"""
        import enc
        r = z3.BitVecVal(0, 160)
        for sid in range(len(self.sites) - 1, 0, -1):
            reason, span = self.sites[sid]
            (sl, sc), (el, ec) = span
            r = z3.If(self.site == bv(sid, SITE_BITS), enc.record_const(reason, (sl, sc, el, ec)), r)
        return r

    # -- entry point
    def run_main(self, fn_name, args):
        f = self.prog.fn(fn_name)
        return self.call(f, args, self.T)

    def call(self, f, args, pc):
        env = Env()
        for (n, t, m), a in zip(f.params, args):
            env.let(n, t, a)
        return self.block(f.body, env, pc)

    def block(self, b, env, pc):
        env.push()
        for st in b.stmts:
            self.stmt(st, env, pc)
        v = self.expr(b.e, env, pc) if b.e is not None else []
        env.pop()
        return v

    # -- statements
    def stmt(self, st, env, pc):
        if isinstance(st, Let):
            v = self.expr(st.e, env, pc)
            self.bind(st.pat, self.ety(st.e), v, env)
        elif isinstance(st, LetMut):
            v = self.expr(st.e, env, pc)
            env.let(st.name, self.ety(st.e), v)
        elif isinstance(st, ExprStmt):
            self.expr(st.e, env, pc)
        elif isinstance(st, Assign):
            self.assign(st, env, pc)
        elif isinstance(st, For):
            arr = self.expr(st.arr, env, pc)
            ety = st.arr.ty.elem
            for x in arr:
                env.push()  # every iteration has its own scope (Rust)
                self.bind(st.pat, ety, x, env)
                for b in st.body:
                    self.stmt(b, env, pc)
                env.pop()
        elif isinstance(st, ForJoin):
            a = self.expr(st.a, env, pc)
            b = self.expr(st.b, env, pc)
            ta, tb = st.a.ty.elem, st.b.ty.elem
            kty = ta.elems[0]
            for x in a:
                for y in b:
                    c = sem_eq(kty, x[0], y[0])
                    e2 = env.clone()
                    e2.push()
                    self.bind(st.pat, TTup([ta, tb]), [x, y], e2)
                    pc2 = z3.And(pc, c) if not z3.is_true(pc) else c
                    for s in st.body:
                        self.stmt(s, e2, pc2)
                    e2.pop()
                    merged = Env.merge(c, e2, env)
                    env.scopes = merged.scopes
        else:
            raise TypeError(type(st))

    def ety(self, e):
        return e.ty

    def assign(self, st, env, pc):
        ty, cur = env.get(st.name)
        p0 = self.panicked
        w_idx, w_val = [z3.BoolVal(False)], [z3.BoolVal(False)]
        # accessor part: index expressions and bounds checks, left to right
        self.watch.append(w_idx)
        path = []  # (kind, key, container type)
        t = ty
        for a in st.accs:
            if a[0] == "idx":
                i = self.expr(a[1], env, pc)
                self.fail(pc, z3.UGE(i, bv(t.n, 32)), OOB, st.span)
                path.append(("idx", i, t))
                t = t.elem
            elif a[0] == "tup":
                path.append(("tup", a[1], t))
                t = t.elems[a[1]]
            else:
                path.append(("fld", a[1], t))
                t = t.field_ty(a[1])
        self.watch.pop()
        self.watch.append(w_val)
        v = self.expr(st.e, env, pc)
        if st.op is not None:
            old = self.read_path(cur, path)
            v = self.binop_values(st.op, t, st.e.ty, old, v, pc, st.span)
        self.watch.pop()
        self.amb = z3.Or(self.amb, z3.And(z3.Not(p0), w_idx[0], w_val[0]))
        env.set(st.name, self.write_path(cur, path, v))

    def read_path(self, cur, path):
        for kind, key, t in path:
            if kind == "idx":
                cur = self.select(t, cur, key)
            else:
                cur = cur[key]
        return cur

    def write_path(self, cur, path, v):
        if not path:
            return v
        kind, key, t = path[0]
        if kind == "idx":
            out = []
            for k, old in enumerate(cur):
                new = self.write_path(old, path[1:], v)
                out.append(ite(t.elem, key == bv(k, 32), new, old))
            return out
        if kind == "tup":
            out = list(cur)
            out[key] = self.write_path(cur[key], path[1:], v)
            return out
        out = dict(cur)
        out[key] = self.write_path(cur[key], path[1:], v)
        return out

    def select(self, aty, arr, i):
        if not arr:
            return zero_value(aty.elem)
        r = arr[0]
        for k in range(1, len(arr)):
            r = ite(aty.elem, i == bv(k, 32), arr[k], r)
        return r

    # -- patterns
    def bind(self, pat, ty, v, env):
        """bind the variables of an irrefutable use of pat"""
        self.pmatch(pat, ty, v, env)

    def pmatch(self, pat, ty, v, env):
        if isinstance(pat, PVar):
            env.let(pat.name, ty, v)
            return self.T
        if isinstance(pat, PLit):
            if isinstance(ty, TBool):
                return v if pat.v else z3.Not(v)
            return v == bv(pat.v, ty.bits)
        if isinstance(pat, PRange):
            hi = pat.hi if pat.inclusive else pat.hi - 1
            lo_c, hi_c = bv(pat.lo, ty.bits), bv(hi, ty.bits)
            if hi < pat.lo:
                return z3.BoolVal(False)
            return z3.And(compare(">=", ty, v, lo_c), compare("<=", ty, v, hi_c))
        if isinstance(pat, PTup):
            return conj([self.pmatch(p, t, x, env) for p, t, x in zip(pat.ps, ty.elems, v)])
        if isinstance(pat, PStruct):
            return conj([self.pmatch(p, ty.field_ty(f), v[f], env) for f, p in pat.fields])
        if isinstance(pat, PEnum):
            i = ty.variant_index(pat.variant)
            fs = ty.variants[i][1]
            cs = [v.tag == bv(i, max(ty.tag_bits, 1))]
            cs += [self.pmatch(p, t, x, env) for p, t, x in zip(pat.ps, fs, v.fields[pat.variant])]
            return conj(cs)
        raise TypeError(type(pat))

    # -- expressions
    def binop_values(self, op, ty, rty, x, y, pc, span):
        if op in ARITH:
            r, fails, dc = arith(op, ty, x, y)
            for c, reason in fails:
                self.fail(pc, c, reason, span)
            if dc is not None:
                self.dontcare = z3.Or(self.dontcare, z3.And(pc, dc))
            return r
        if op in SHIFT:
            r, fails = shift(op, ty, x, y)
            for c, reason in fails:
                self.fail(pc, c, reason, span)
            return r
        if op in BITW:
            if isinstance(ty, TBool):
                return {"&": z3.And(x, y), "|": z3.Or(x, y), "^": x != y}[op]
            return {"&": x & y, "|": x | y, "^": x ^ y}[op]
        raise ValueError(op)

    def expr(self, e, env, pc):
        if isinstance(e, Lit):
            if isinstance(e.ty, TBool):
                return z3.BoolVal(bool(e.v))
            return bv(e.v, e.ty.bits)
        if isinstance(e, Var):
            try:
                return env.get(e.name)[1]
            except KeyError:
                return self.consts[e.name][1]
        if isinstance(e, Un):
            x = self.expr(e.e, env, pc)
            if e.op == "!":
                return z3.Not(x) if isinstance(e.ty, TBool) else ~x
            self.fail(pc, x == bv(e.ty.min, e.ty.bits), OVERFLOW, e.span)
            return -x
        if isinstance(e, Bin):
            op = e.op
            if op == "&&":
                x = self.expr(e.l, env, pc)
                y = self.expr(e.r, env, z3.And(pc, x) if not z3.is_true(pc) else x)
                return z3.And(x, y)
            if op == "||":
                x = self.expr(e.l, env, pc)
                nx = z3.Not(x)
                y = self.expr(e.r, env, z3.And(pc, nx) if not z3.is_true(pc) else nx)
                return z3.Or(x, y)
            x = self.expr(e.l, env, pc)
            y = self.expr(e.r, env, pc)
            if op in CMP:
                return compare(op, e.l.ty, x, y)
            if op == "==":
                return sem_eq(e.l.ty, x, y)
            if op == "!=":
                return z3.Not(sem_eq(e.l.ty, x, y))
            return self.binop_values(op, e.l.ty, e.r.ty, x, y, pc, e.span)
        if isinstance(e, Cast):
            return cast(e.e.ty, e.ty, self.expr(e.e, env, pc))
        if isinstance(e, Block):
            return self.block(e, env, pc)
        if isinstance(e, If):
            c = self.expr(e.c, env, pc)
            nc = z3.Not(c)
            et, ef = env.clone(), env.clone()
            vt = self.block(e.t, et, z3.And(pc, c) if not z3.is_true(pc) else c)
            vf = self.block(e.f, ef, z3.And(pc, nc) if not z3.is_true(pc) else nc) if e.f is not None else []
            env.scopes = Env.merge(c, et, ef).scopes
            return ite(e.ty, c, vt, vf)
        if isinstance(e, Match):
            s = self.expr(e.scrut, env, pc)
            sty = e.scrut.ty
            prev = z3.BoolVal(False)
            result = None
            out_env = None
            base = env.clone()
            # evaluate arms in source order; the first matching arm decides
            conds, vals, envs = [], [], []
            for pat, body in e.arms:
                ea = base.clone()
                ea.push()
                m = self.pmatch(pat, sty, s, ea)
                take = z3.And(z3.Not(prev), m)
                pca = z3.And(pc, take) if not z3.is_true(pc) else take
                v = self.block(body, ea, pca) if isinstance(body, Block) else self.expr(body, ea, pca)
                ea.pop()
                conds.append(take)
                vals.append(v)
                envs.append(ea)
                prev = z3.Or(prev, m)
            result, out_env = vals[-1], envs[-1]
            for k in range(len(conds) - 2, -1, -1):
                result = ite(e.ty, conds[k], vals[k], result)
                out_env = Env.merge(conds[k], envs[k], out_env)
            env.scopes = out_env.scopes
            return result
        if isinstance(e, Call):
            f = self.prog.fn(e.fn)
            args = [self.expr(a, env, pc) for a in e.args]
            return self.call(f, args, pc)
        if isinstance(e, ArrLit):
            return [self.expr(x, env, pc) for x in e.elems]
        if isinstance(e, ArrRep):
            v = self.expr(e.e, env, pc)
            return [v for _ in range(e.n)]
        if isinstance(e, Range):
            return [bv(k, e.ety.bits) for k in range(e.lo, e.hi)]
        if isinstance(e, Index):
            a = self.expr(e.a, env, pc)
            i = self.expr(e.i, env, pc)
            self.fail(pc, z3.UGE(i, bv(e.a.ty.n, 32)), OOB, e.span)
            return self.select(e.a.ty, a, i)
        if isinstance(e, TupLit):
            return [self.expr(x, env, pc) for x in e.elems]
        if isinstance(e, TupGet):
            return self.expr(e.e, env, pc)[e.i]
        if isinstance(e, StructLit):
            return {f: self.expr(x, env, pc) for f, x in e.fields}
        if isinstance(e, Field):
            return self.expr(e.e, env, pc)[e.f]
        if isinstance(e, EnumLit):
            ty = e.ty
            fields = {vn: [zero_value(t) for t in fs] for vn, fs in ty.variants}
            fields[e.variant] = [self.expr(x, env, pc) for x in e.args]
            return EnumVal(ty, bv(ty.variant_index(e.variant), max(ty.tag_bits, 1)), fields)
        raise TypeError(type(e))


def param_values(prog, fn_name, inputs_bv, party_sizes=None):
    """Decode the symbolic party inputs into argument values of fn's parameters.
    inputs_bv: list of BitVec per party (enc.Inputs.bv). Returns (args, assumptions)."""
    f = prog.fn(fn_name)
    assume = []
    if len(f.params) == 1 and is_arr(f.params[0][1]):
        t = f.params[0][1]
        args = [[decode(t.elem, inputs_bv[k], assume) for k in range(t.n)]]
    else:
        args = []
        for k, (n, t, m) in enumerate(f.params):
            args.append(decode(t, inputs_bv[k], assume) if size_of(t) else zero_value(t))
    return args, assume


def expected_party_sizes(prog, fn_name):
    f = prog.fn(fn_name)
    if len(f.params) == 1 and is_arr(f.params[0][1]):
        t = f.params[0][1]
        return [size_of(t.elem)] * t.n
    return [size_of(t) for _, t, _ in f.params]
