#!/usr/bin/env python3
"""Writes /verif/MANIFEST.json from the table below (kept in one place so that it stays consistent)."""
import json, os, subprocess

VERIF = os.path.dirname(os.path.dirname(os.path.abspath(__file__)))
TV = "translation validation by SMT: the real compiler's circuit is encoded as a formula over symbolic input bits and z3 (kissat on the bit-blasted CNF as second back end) decides equivalence with a reference semantics for all inputs; counterexamples are replayed natively"

CHECKS = {
    "C01": dict(level="translation_validation", tech=TV + "; programs from a seeded generator; 4 configurations (SSA/register x de-duplication on/off)",
                text="For every generated program, z3 shows that no argument tuple exists on which the source semantics complete without panic but the circuit (SSA, de-dup on/off; register form by symbolic simulation) panics or decodes to another value. The input dimension (2^n values) is discharged by the solver; the program dimension is a seeded, bounded family.",
                note="Trusted: z3/kissat, the reference semantics engine/tv/ref.py (Rust-like, usize = 32 bit), the generator's printer. Assumed: arguments encode values of the parameter types. Out of the claim: programs the generator cannot produce, deeper nesting, 32/64-bit * / % with both operands free.", ref="DESIGN.md section 4, C01"),
    "C02": dict(level="translation_validation", tech=TV + "; reference threads a path condition and a first-failure panic record (reason + source span)",
                text="Per program two queries over all inputs: panic flag differs from 'some operation fails on the executed path'; both panic but reason/location differ from the first failing operation. unsat for every generated program, de-duplication on and off.",
                note="Trusted as C01 plus the span rule (first char of left-most operand .. after last char of right-most operand, field access = field identifier). When the index part and the value part of ONE assignment both fail only 'panic iff' is compared (order unspecified in the guide).", ref="DESIGN.md section 4, C02"),
    "C03": dict(level="translation_validation", tech=TV + "; one template per (operator, type, operand form); oracle = z3 bit-vector arithmetic in a doubled width",
                text="Every binary/unary operator and every cast between primitive types, at every width: both operands symbolic at full width (mul/div/rem up to 8 bits quick / 16 bits thorough), one literal operand from a boundary set at all widths, with and without a type suffix (an unsuffixed literal is a node without a type of its own); value, panic-iff and reason/location queries. Known finding neg-const-mul is confined to its region by an assumption and re-solved outside it.",
                note="Trusted: z3's bvmul/bvsdiv/bvsrem as arithmetic oracle. Outside: 32/64-bit * / % with both operands free (multiplier miters do not finish); queries that hit the cap are counted inconclusive, never passed.", ref="DESIGN.md section 4, C03"),
    "C04": dict(level="translation_validation", tech="SMT miters: (a) compiled program with optimize_duplicate_gates on vs off, all outputs, all inputs; (b) builder request sequences run by the real CircuitBuilder (verif_hooks) vs literal semantics of the requests, all inputs",
                text="On/off circuits of every generated program are mitered (panic flag, record under the flag, value bits). Every sequence of <= 2 builder requests of every kind over 2 inputs (thorough: 3 xor/and/not requests), every sequence of 4 xor/and requests over 3 inputs that starts with op(i0, i1) (quick: distinct operands, 115k x cache on/off; thorough: also equal operands), and seeded sequences up to 40 requests biased to the rewrite-rule shapes are executed by the real builder and compared with their literal semantics for all inputs, cache on and off, for every listed output wire.",
                note="The history dimension (which requests) is enumerated/seeded, not symbolic: the builder state lives in HashMaps that CBMC cannot execute (measured). Panic-record bits are compared only under the panic flag (they are ignored by every decoder otherwise).", ref="DESIGN.md section 4, C04"),
    "C05": dict(level="translation_validation", tech=TV + "; fixed id-keyed templates (inference families x integer types, annotated and de-annotated; zero-sized types)",
                text="Scoped to the solver-decidable core 'static type and emitted wires never diverge': for each template that the checker accepts, compilation does not panic, validate() accepts, parties / bit counts / 161 + size(return) outputs match the declared types, and the circuit equals the reference under the INTENDED types for all inputs. Annotated templates must be accepted. Failing templates are individually listed known findings; all others must pass.",
                note="Not 'all programs the checker accepts': a fixed family of ~970 templates (58 inference families x 9 integer types, annotated and de-annotated, plus 17 zero-size templates). The checker is run natively (it cannot be executed symbolically, DESIGN.md section 3).", ref="DESIGN.md section 4, C05"),
    "C08": dict(level="translation_validation", tech="SMT pattern semantics: z3 decides exhaustiveness of each arm list over all scrutinee values and is compared with the real checker's verdict; accepted matches are translation-validated; reported witnesses are checked by sat/unsat queries",
                text="For thousands of arm lists (exact covers perturbed at their boundaries) over bool/int/enum/tuple/struct scrutinees: checker accepts <=> solver says exhaustive; circuit = first matching arm with its bindings for all values; every reported missing case matches some value and no matched value.",
                note="Trusted: matches(p, v) in engine/tv/ref.py written from the guide. Arm lists are seeded, <= 8 arms, nesting <= 2.", ref="DESIGN.md section 4, C08"),
    "C09": dict(level="model_checking", tech="bounded model checking of the real literal codec with Kani/CBMC (symbolic 64-bit payloads and bit patterns) + SMT translation validation of identity programs for aggregate layouts",
                text="Scoped to primitive types and ranges: Kani proves on the real Literal::{is_of_type, as_bits, from_unwrapped_bits} that an accepted literal encodes to exactly size(T) bits in the documented big-endian two's-complement layout, that every bit pattern decodes to the value with that layout, that the type test accepts only representable numbers / well-formed ranges and never panics. Identity programs over nested aggregate types return their argument for all bit patterns (z3).",
                note="Out of the claim: struct / enum literals through the API (HashMap<String,_> lookups, out of CBMC's reach; re-measured: one insert + one get gives no result in 15 min), Literal::Array/Tuple harnesses (time out), the ENCODING of range literals (Vec of symbolic length, times out; only their type test is claimed), print/parse round trips (Display + scanner + parser). Two seeded changes in these areas are recorded as misses (seeded/RESULTS.md). Stub: RandomState::new (maps stay empty).", ref="DESIGN.md section 4, C09"),
    "C10": dict(level="translation_validation", tech="SMT miter of the symbolically simulated register program (real From<&SsaCircuit>) against the SSA circuit, all inputs; structural obligations on the concrete artefact",
                text="Compiler outputs and arbitrary well-formed gate lists (exhaustive small shapes, seeded larger ones with repeated operands/outputs, unused wires) are converted by the real allocator; outputs equal for all inputs (z3), validate() accepts, no read-before-write, the Input instructions load every party's inputs in order, register count and AND count as specified.",
                note="Circuit shapes/gate lists are enumerated or seeded; inputs symbolic. A Kani harness on the allocator is out of reach (HashMap; measured 900 s, no result).", ref="DESIGN.md section 4, C10"),
    "C11": dict(level="translation_validation", tech="SMT miter of (a) the circuit re-imported by the real bristol_to_garble and (b) an independent reading of the exported text against the original outputs, all inputs",
                text="Export/import round trip of compiled circuits, templates with repeated/constant/input outputs and seeded gate lists: same non-panic outputs for all inputs; exported text well-formed (counts, single assignment before use, outputs last in order, de-aliased repeats), also when the target path already holds an older, longer export; input-wire outputs refused.",
                note="Scoped: 'importing ANY text never panics' is not claimed (File/BufReader + text; not encodable within reach).", ref="DESIGN.md section 4, C11"),
    "C12": dict(level="translation_validation", tech=TV + "; constants computed by the generator in wrapping arithmetic of the declared type; miter against the real compilation of the textually substituted twin",
                text="Programs with const declarations (external values, earlier consts, nested min/max/+/-, all primitive types) used as values, array sizes, repeat sizes and party counts: compile_with_constants(P, c) equals the substitution semantics for all inputs (value, panic-iff, location) and the compiled twin P[c]; withheld/mistyped constants give errors naming them, never a panic. The literal-level argument API (Evaluator::parse_literal + run) is only compared natively, on one all-zero literal per parameter, between P with constants and its twin - a differential run, not a solver query.",
                note="Constant assignments are seeded boundary values; parameter / type sizes 1..4 (zero-sized parameters belong to C05); repeat-literal sizes 0..3 as local arrays.", ref="DESIGN.md section 4, C12"),
    "C13": dict(level="translation_validation", tech=TV + "; all array elements symbolic under the sortedness precondition; relational specification for join(), nested-loop reference for for-join; sorting networks through the hook",
                text="For every size pair (n, m) up to the bound and several key/payload shapes: for-join loop effects and panics equal the nested-loop join in ascending key order for ALL strictly ascending arrays; join() output satisfies length, zero-padding, sorted flags, flagged = matching elements, no key twice, every common key present (also with duplicate keys within one side); the same for arrays that are fully or partly compile-time constants (the builder folds the networks on constant wires). Bitonic sorter networks (hook) sort and permute for all inputs.",
                note="Precondition: arrays sorted by their unsigned key as documented. Sizes n + m <= 7 (quick) / 10 (thorough), keys u8/u16 (+u32, tuple keys thorough); constant / partly constant arrays for u8 keys (thorough: all integer keys).", ref="DESIGN.md section 4, C13"),
    "C14": dict(level="translation_validation", tech=TV + "; mutation-heavy generator profile, every live variable returned",
                text="Programs built from let mut / (compound) assignment through nested accessors with constant and input-dependent indices, aggregate copies, mutation in branches/arms/loops/callees and shadowing: output (all live variables) equals the by-value reference for all inputs.",
                note="As C01.", ref="DESIGN.md section 4, C14"),
    "C16": dict(level="model_checking", tech="bounded model checking of the real Rust code with Kani/CBMC: validate() => eval() safe, over symbolic circuit contents for concrete shapes; counterexamples rebuilt from concrete playback and replayed natively",
                text="The real Circuit::validate/eval and register_circuit::Circuit::validate/eval are executed symbolically by CBMC with every gate/instruction field, output index, max_reg_count and input bit symbolic; for each concrete shape the solver shows that no validated circuit makes eval panic, index out of bounds, read an undefined register or return a wrong number of bits. Unwinding assertions on; cover witnesses guard against vacuity. Bounded: shapes up to 3 parties / 4 instructions / 2 outputs.",
                note="Trusted: Kani 0.68 / CBMC 6.11 (cadical). Shapes are concrete (symbolic Vec lengths do not get through CBMC here); max_reg_count <= 4. 'Validation accepts every compiler/converter output' is asserted concretely on generated programs.", ref="DESIGN.md section 4, C16"),
    "C17": dict(level="translation_validation", tech="SMT pattern semantics: z3 decides refutability of each let/for pattern over all values and is compared with the real checker's verdict",
                text="ONE rule of C17 only: a refutable pattern in `let`/`for` is rejected exactly when z3 finds a value that does not match it; accepted patterns bind the right components for all values.",
                note="All other static rules of C17 have no value dimension and the checker cannot be executed symbolically; they are outside the claim.", ref="DESIGN.md section 4, C17"),
}
NOT_APPLICABLE = [
    {"property_id": "C06", "reason": "the quantifier is over per-process hash seeds: making the seed symbolic means executing SipHash + hashbrown + the compiler under CBMC, and a HashMap with two concrete inserts does not get through symbolic execution in 280 s (measured); re-compiling under different seeds and diffing is sampling, a different technique"},
    {"property_id": "C07", "reason": "scanner, parser and checker are String/Vec/Box/HashMap code with input-length-dependent loops: scan() on 3 symbolic characters gave no result in 400 s / 6 GB under Kani (measured); enumerating perturbed corpus texts is not solver-based checking"},
    {"property_id": "C15", "reason": "a syntactic invariant of emitted artefacts (reachability of gates, operand shape of AND gates, AND count of data-movement programs) with no input, schedule or fault dimension for a solver to quantify over; the code meant to establish it (CircuitBuilder) is HashMap-bound and out of CBMC's reach (measured: 900 s, no result)"},
]


def main():
    hooks_commit = subprocess.run(["git", "-C", "/repo", "log", "--format=%h", "--grep=verif_hooks feature"], stdout=subprocess.PIPE, text=True).stdout.split()
    m = {
        "version": 1,
        "setup_cmd": "python3-vt engine/run.py --setup",
        "hooks": {
            "guard": "cargo feature `verif_hooks` (off by default)",
            "enable": "engine/driver/Cargo.toml depends on /repo with features = [\"verif_hooks\"]; nothing else needs it",
            "baseline_off_cmd": "cd /repo && cargo nextest run --workspace --no-fail-fast --test-threads 8 --offline || cargo test --workspace --no-fail-fast --offline",
            "source_commits": hooks_commit,
            "add_only": True,
        },
        "engines": [
            {"name": "tv-smt", "path": "engine/tv", "serves_properties": sorted(k for k, v in CHECKS.items() if v["level"] == "translation_validation"),
             "kind_free_text": "translation validation: real compiler (Rust driver, path dependency on /repo) -> circuit -> z3 formula vs reference semantics / miter; kissat second back end"},
            {"name": "kani", "path": "engine/kani", "serves_properties": sorted(k for k, v in CHECKS.items() if v["level"] == "model_checking"),
             "kind_free_text": "Kani/CBMC proof harnesses over the real validate/eval and literal codec code"},
        ],
        "checks": [],
        "not_applicable": NOT_APPLICABLE,
        "notes": "Every check rebuilds the driver (cargo, path dependency on /repo) and recompiles every program, so it always sees /repo's working tree. exit 2 = inconclusive (never a pass).",
    }
    for pid in sorted(CHECKS):
        c = CHECKS[pid]
        m["checks"].append({
            "property_id": pid,
            "quick_cmd": "python3-vt engine/run.py --property %s --tier quick" % pid,
            "thorough_cmd": "python3-vt engine/run.py --property %s --tier thorough" % pid,
            "evidence_file": "evidence/%s.json" % pid,
            "replay_cmd_template": "python3-vt engine/run.py --property %s --replay {path}" % pid,
            "engine": "kani" if c["level"] == "model_checking" else "tv-smt",
            "level_claimed": {"category": c["level"], "text": c["text"], "design_ref": c["ref"]},
            "level_note": c["note"],
            "technique": c["tech"],
        })
    with open(os.path.join(VERIF, "MANIFEST.json"), "w") as f:
        json.dump(m, f, indent=1)
    print("MANIFEST.json: %d checks, %d not applicable" % (len(m["checks"]), len(NOT_APPLICABLE)))


if __name__ == "__main__":
    main()
