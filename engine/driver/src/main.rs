//! Line-protocol driver around the real garble_lang crate (path dependency on /repo).
//! One request per stdin line (TAB separated fields, free text hex-encoded), one response line.
//! Every request is wrapped in catch_unwind; a panic is reported as `panic <hexmsg>`.

use garble_lang::{
    circuit::{Circuit, Gate},
    circuit_type::CircuitType,
    compile_with_options,
    literal::Literal,
    register_circuit as rc,
    token::{SignedNumType, UnsignedNumType},
    verif_hooks::Builder,
    CircuitKind, CompileOptions, CompileTimeError, Error, GarbleProgram,
};
use std::{
    collections::HashMap,
    io::{BufRead, Write},
    panic::{catch_unwind, AssertUnwindSafe},
};

fn hex(s: &str) -> String {
    let mut o = String::with_capacity(s.len() * 2);
    for b in s.as_bytes() {
        o.push_str(&format!("{b:02x}"));
    }
    if o.is_empty() {
        o.push('-');
    }
    o
}

fn unhex(s: &str) -> String {
    if s == "-" {
        return String::new();
    }
    let bytes: Vec<u8> = (0..s.len() / 2)
        .map(|i| u8::from_str_radix(&s[2 * i..2 * i + 2], 16).unwrap())
        .collect();
    String::from_utf8(bytes).unwrap()
}

fn fmt_circuit(c: &Circuit) -> String {
    let mut s = String::with_capacity(16 + c.gates.len() * 12);
    s.push_str("i:");
    s.push_str(
        &c.input_gates
            .iter()
            .map(|n| n.to_string())
            .collect::<Vec<_>>()
            .join(","),
    );
    s.push_str("|g:");
    let mut first = true;
    for g in &c.gates {
        if !first {
            s.push(',');
        }
        first = false;
        match g {
            Gate::Xor(a, b) => s.push_str(&format!("x{a}.{b}")),
            Gate::And(a, b) => s.push_str(&format!("a{a}.{b}")),
            Gate::Not(a) => s.push_str(&format!("n{a}")),
        }
    }
    s.push_str("|o:");
    s.push_str(
        &c.output_gates
            .iter()
            .map(|n| n.to_string())
            .collect::<Vec<_>>()
            .join(","),
    );
    s
}

fn parse_list(s: &str) -> Vec<usize> {
    if s.is_empty() {
        return vec![];
    }
    s.split(',').map(|x| x.parse::<usize>().unwrap()).collect()
}

fn parse_circuit(s: &str) -> Circuit {
    let mut input_gates = vec![];
    let mut gates = vec![];
    let mut output_gates = vec![];
    for part in s.split('|') {
        let (k, v) = part.split_at(2);
        match k {
            "i:" => input_gates = parse_list(v),
            "o:" => output_gates = parse_list(v),
            "g:" => {
                if !v.is_empty() {
                    for g in v.split(',') {
                        let (t, rest) = g.split_at(1);
                        match t {
                            "n" => gates.push(Gate::Not(rest.parse().unwrap())),
                            _ => {
                                let (a, b) = rest.split_once('.').unwrap();
                                let (a, b) = (a.parse().unwrap(), b.parse().unwrap());
                                gates.push(if t == "x" {
                                    Gate::Xor(a, b)
                                } else {
                                    Gate::And(a, b)
                                });
                            }
                        }
                    }
                }
            }
            _ => panic!("bad circuit part {part}"),
        }
    }
    Circuit {
        input_gates,
        gates,
        output_gates,
    }
}

fn fmt_reg(c: &rc::Circuit) -> String {
    let mut s = String::with_capacity(32 + c.insts.len() * 14);
    s.push_str("i:");
    s.push_str(
        &c.input_regs
            .iter()
            .map(|n| n.to_string())
            .collect::<Vec<_>>()
            .join(","),
    );
    s.push_str(&format!("|r:{}|n:{}|p:", c.max_reg_count, c.and_ops));
    let mut first = true;
    for inst in &c.insts {
        if !first {
            s.push(',');
        }
        first = false;
        let o = inst.out.0;
        match inst.op {
            rc::Op::Xor(rc::Xor(a, b)) => s.push_str(&format!("x{o}.{}.{}", a.0, b.0)),
            rc::Op::And(rc::And(a, b)) => s.push_str(&format!("a{o}.{}.{}", a.0, b.0)),
            rc::Op::Not(rc::Not(a)) => s.push_str(&format!("n{o}.{}", a.0)),
            rc::Op::Input(rc::Input { party, input }) => {
                s.push_str(&format!("I{o}.{party}.{input}"))
            }
        }
    }
    s.push_str("|o:");
    s.push_str(
        &c.output_regs
            .iter()
            .map(|n| n.0.to_string())
            .collect::<Vec<_>>()
            .join(","),
    );
    s
}

fn parse_reg(s: &str) -> rc::Circuit {
    let mut c = rc::Circuit {
        input_regs: vec![],
        insts: vec![],
        max_reg_count: 0,
        output_regs: vec![],
        and_ops: 0,
    };
    for part in s.split('|') {
        let (k, v) = part.split_at(2);
        match k {
            "i:" => c.input_regs = parse_list(v),
            "o:" => c.output_regs = parse_list(v).into_iter().map(|r| rc::Reg(r as u32)).collect(),
            "r:" => c.max_reg_count = v.parse().unwrap(),
            "n:" => c.and_ops = v.parse().unwrap(),
            "p:" => {
                if !v.is_empty() {
                    for g in v.split(',') {
                        let (t, rest) = g.split_at(1);
                        let f: Vec<u32> = rest.split('.').map(|x| x.parse().unwrap()).collect();
                        let out = rc::Reg(f[0]);
                        let op = match t {
                            "x" => rc::Op::Xor(rc::Xor(rc::Reg(f[1]), rc::Reg(f[2]))),
                            "a" => rc::Op::And(rc::And(rc::Reg(f[1]), rc::Reg(f[2]))),
                            "n" => rc::Op::Not(rc::Not(rc::Reg(f[1]))),
                            "I" => rc::Op::Input(rc::Input {
                                party: f[1],
                                input: f[2],
                            }),
                            _ => panic!("bad inst {g}"),
                        };
                        c.insts.push(rc::Inst { out, op });
                    }
                }
            }
            _ => panic!("bad reg circuit part {part}"),
        }
    }
    c
}

fn parse_bits(s: &str) -> Vec<Vec<bool>> {
    // parties separated by ',' ; '-' = party with zero bits ; empty string = no parties
    if s.is_empty() {
        return vec![];
    }
    s.split(',')
        .map(|p| {
            if p == "-" {
                vec![]
            } else {
                p.chars().map(|c| c == '1').collect()
            }
        })
        .collect()
}

fn fmt_bits(b: &[bool]) -> String {
    if b.is_empty() {
        return "-".to_string();
    }
    b.iter().map(|&x| if x { '1' } else { '0' }).collect()
}

fn unsigned_ty(s: &str) -> UnsignedNumType {
    match s {
        "u8" => UnsignedNumType::U8,
        "u16" => UnsignedNumType::U16,
        "u32" => UnsignedNumType::U32,
        "u64" => UnsignedNumType::U64,
        "usize" => UnsignedNumType::Usize,
        "unspec" => UnsignedNumType::Unspecified,
        _ => panic!("bad unsigned type {s}"),
    }
}

fn signed_ty(s: &str) -> SignedNumType {
    match s {
        "i8" => SignedNumType::I8,
        "i16" => SignedNumType::I16,
        "i32" => SignedNumType::I32,
        "i64" => SignedNumType::I64,
        "unspec" => SignedNumType::Unspecified,
        _ => panic!("bad signed type {s}"),
    }
}

fn parse_consts(s: &str) -> HashMap<String, HashMap<String, Literal>> {
    // PARTY/NAME=u:123:u8;PARTY/NAME=s:-5:i8;P/N=t;P/N=f
    let mut m: HashMap<String, HashMap<String, Literal>> = HashMap::new();
    if s == "-" || s.is_empty() {
        return m;
    }
    for item in s.split(';') {
        let (k, v) = item.split_once('=').unwrap();
        let (party, name) = k.split_once('/').unwrap();
        let f: Vec<&str> = v.split(':').collect();
        let lit = match f[0] {
            "t" => Literal::True,
            "f" => Literal::False,
            "u" => Literal::NumUnsigned(f[1].parse().unwrap(), unsigned_ty(f[2])),
            "s" => Literal::NumSigned(f[1].parse().unwrap(), signed_ty(f[2])),
            _ => panic!("bad const {item}"),
        };
        m.entry(party.to_string())
            .or_default()
            .insert(name.to_string(), lit);
    }
    m
}

fn fmt_error(e: &Error) -> String {
    match e {
        Error::CompileTimeError(CompileTimeError::ScanErrors(es)) => {
            let mut s = format!("scan\t{}", es.len());
            for e in es {
                let m = e.1;
                s.push_str(&format!(
                    "\t{}|{},{},{},{}",
                    hex(&format!("{}", e.0)),
                    m.start.0,
                    m.start.1,
                    m.end.0,
                    m.end.1
                ));
            }
            s
        }
        Error::CompileTimeError(CompileTimeError::ParseError(es)) => {
            let mut s = format!("parse\t{}", es.len());
            for e in es {
                let m = e.1;
                s.push_str(&format!(
                    "\t{}|{},{},{},{}",
                    hex(&format!("{}", e.0)),
                    m.start.0,
                    m.start.1,
                    m.end.0,
                    m.end.1
                ));
            }
            s
        }
        Error::CompileTimeError(CompileTimeError::TypeError(es)) => {
            let mut s = format!("type\t{}", es.len());
            for e in es {
                let m = *e.1;
                let dbg = format!("{:?}", e.0);
                let kind = dbg.split(['(', ' ', '{']).next().unwrap_or("").to_string();
                s.push_str(&format!(
                    "\t{}|{},{},{},{}|{}",
                    hex(&format!("{}", e.0)),
                    m.start.0,
                    m.start.1,
                    m.end.0,
                    m.end.1,
                    kind
                ));
            }
            s
        }
        Error::CompileTimeError(CompileTimeError::CompilerError(es)) => {
            let mut s = format!("compiler\t{}", es.len());
            for e in es {
                s.push_str(&format!("\t{}|{}", hex(&format!("{e}")), hex(&format!("{e:?}"))));
            }
            s
        }
        other => format!("other\t1\t{}", hex(&format!("{other:?}"))),
    }
}

struct State {
    progs: HashMap<usize, GarbleProgram>,
    next: usize,
}

fn run_big_stack<T: Send + 'static>(f: impl FnOnce() -> T + Send + 'static) -> std::thread::Result<T> {
    std::thread::Builder::new()
        .stack_size(1 << 30)
        .spawn(f)
        .unwrap()
        .join()
}

fn ssa_of(p: &GarbleProgram) -> &Circuit {
    match &p.circuit {
        CircuitType::Ssa(c) => c,
        _ => panic!("not ssa"),
    }
}

fn handle(st: &mut State, line: &str) -> String {
    let f: Vec<&str> = line.split('\t').collect();
    match f[0] {
        "ping" => "ok\tpong".to_string(),
        "check" => {
            let src = unhex(f[1]);
            match run_big_stack(move || garble_lang::check(&src).map(|_| ())) {
                Ok(Ok(())) => "ok".to_string(),
                Ok(Err(e)) => format!("err\t{}", fmt_error(&e)),
                Err(p) => format!("panic\t{}", hex(&panic_msg(&p))),
            }
        }
        "compile" => {
            // compile <dedup> <src> <consts>
            let dedup = f[1] == "1";
            let src = unhex(f[2]);
            let consts = parse_consts(f.get(3).copied().unwrap_or("-"));
            let r = run_big_stack(move || {
                compile_with_options(
                    &src,
                    CompileOptions {
                        circuit_kind: CircuitKind::Ssa,
                        consts,
                        optimize_duplicate_gates: dedup,
                    },
                )
            });
            match r {
                Ok(Ok(p)) => {
                    let id = st.next;
                    st.next += 1;
                    let c = fmt_circuit(ssa_of(&p));
                    let v = match ssa_of(&p).validate() {
                        Ok(()) => "valid".to_string(),
                        Err(e) => format!("invalid:{e:?}"),
                    };
                    let params: Vec<String> =
                        p.main.params.iter().map(|q| format!("{}", q.ty)).collect();
                    let ret = format!("{}", p.main.ty);
                    let ands = ssa_of(&p).and_gates();
                    st.progs.insert(id, p);
                    format!(
                        "ok\t{id}\t{c}\t{v}\t{}\t{}\t{ands}",
                        hex(&params.join(";")),
                        hex(&ret)
                    )
                }
                Ok(Err(e)) => format!("err\t{}", fmt_error(&e)),
                Err(p) => format!("panic\t{}", hex(&panic_msg(&p))),
            }
        }
        "compilereg" => {
            // compile via the public Register option: compilereg <dedup> <src> <consts>
            let dedup = f[1] == "1";
            let src = unhex(f[2]);
            let consts = parse_consts(f.get(3).copied().unwrap_or("-"));
            let r = run_big_stack(move || {
                compile_with_options(
                    &src,
                    CompileOptions {
                        circuit_kind: CircuitKind::Register,
                        consts,
                        optimize_duplicate_gates: dedup,
                    },
                )
            });
            match r {
                Ok(Ok(p)) => match &p.circuit {
                    CircuitType::Register(c) => {
                        let v = match c.validate() {
                            Ok(()) => "valid".to_string(),
                            Err(e) => format!("invalid:{e:?}"),
                        };
                        format!("ok\t{}\t{v}\t{}\t{}", fmt_reg(c), p.circuit.ops(), p.circuit.ands())
                    }
                    _ => "err\tother\t1\t-".to_string(),
                },
                Ok(Err(e)) => format!("err\t{}", fmt_error(&e)),
                Err(p) => format!("panic\t{}", hex(&panic_msg(&p))),
            }
        }
        "drop" => {
            let id: usize = f[1].parse().unwrap();
            st.progs.remove(&id);
            "ok".to_string()
        }
        "reset" => {
            st.progs.clear();
            "ok".to_string()
        }
        "eval" => {
            let id: usize = f[1].parse().unwrap();
            let bits = parse_bits(f.get(2).copied().unwrap_or(""));
            let out = ssa_of(&st.progs[&id]).eval(&bits);
            format!("ok\t{}", fmt_bits(&out))
        }
        "evalc" => {
            let c = parse_circuit(f[1]);
            let bits = parse_bits(f.get(2).copied().unwrap_or(""));
            let out = c.eval(&bits);
            format!("ok\t{}", fmt_bits(&out))
        }
        "validate" => {
            let c = parse_circuit(f[1]);
            match c.validate() {
                Ok(()) => "ok\tvalid".to_string(),
                Err(e) => format!("ok\tinvalid:{e:?}"),
            }
        }
        "validater" => {
            let c = parse_reg(f[1]);
            match c.validate() {
                Ok(()) => "ok\tvalid".to_string(),
                Err(e) => format!("ok\tinvalid:{e:?}"),
            }
        }
        "toreg" => {
            let id: usize = f[1].parse().unwrap();
            let c: rc::Circuit = ssa_of(&st.progs[&id]).into();
            let v = match c.validate() {
                Ok(()) => "valid".to_string(),
                Err(e) => format!("invalid:{e:?}"),
            };
            format!("ok\t{}\t{v}", fmt_reg(&c))
        }
        "toregc" => {
            let ssa = parse_circuit(f[1]);
            let c: rc::Circuit = (&ssa).into();
            let v = match c.validate() {
                Ok(()) => "valid".to_string(),
                Err(e) => format!("invalid:{e:?}"),
            };
            format!("ok\t{}\t{v}", fmt_reg(&c))
        }
        "evalr" => {
            let c = parse_reg(f[1]);
            let bits = parse_bits(f.get(2).copied().unwrap_or(""));
            let out = c.eval(&bits);
            format!("ok\t{}", fmt_bits(&out))
        }
        "bristol" => {
            // bristol <id|c> <circuit text if c> <tmp path>
            let (circ, path) = if f[1] == "c" {
                (parse_circuit(f[2]), f[3].to_string())
            } else {
                let id: usize = f[1].parse().unwrap();
                (ssa_of(&st.progs[&id]).clone(), f[2].to_string())
            };
            let path = std::path::PathBuf::from(path);
            // the target already holds an older, longer export: the new export has to replace it completely
            let stale: String = std::iter::once("4000 4002\n2 1 1\n1 1\n\n".to_string())
                .chain((0..4000).map(|k| format!("2 1 {} {} {} XOR\n", k, k + 1, k + 2)))
                .collect();
            std::fs::write(&path, stale).unwrap();
            match circ.format_as_bristol(&path) {
                Err(e) => format!("err\texport\t{}", hex(&format!("{e:?}"))),
                Ok(()) => {
                    let text = std::fs::read_to_string(&path).unwrap();
                    let back = catch_unwind(AssertUnwindSafe(|| Circuit::bristol_to_garble(&path)));
                    let _ = std::fs::remove_file(&path);
                    match back {
                        Ok(Ok(c)) => format!("ok\t{}\t{}", hex(&text), fmt_circuit(&c)),
                        Ok(Err(e)) => {
                            format!("err\timport\t{}\t{}", hex(&format!("{e:?}")), hex(&text))
                        }
                        Err(p) => format!("panic\t{}\t{}", hex(&panic_msg(&p)), hex(&text)),
                    }
                }
            }
        }
        "import" => {
            // import <text hex> <tmp path>
            let text = unhex(f[1]);
            let path = std::path::PathBuf::from(f[2]);
            std::fs::write(&path, text).unwrap();
            let back = catch_unwind(AssertUnwindSafe(|| Circuit::bristol_to_garble(&path)));
            let _ = std::fs::remove_file(&path);
            match back {
                Ok(Ok(c)) => {
                    let v = match c.validate() {
                        Ok(()) => "valid".to_string(),
                        Err(e) => format!("invalid:{e:?}"),
                    };
                    format!("ok\t{}\t{v}", fmt_circuit(&c))
                }
                Ok(Err(e)) => format!("err\timport\t{}", hex(&format!("{e:?}"))),
                Err(p) => format!("panic\t{}", hex(&panic_msg(&p))),
            }
        }
        "output" => {
            // output <id> <bits>  -> parse_output
            let id: usize = f[1].parse().unwrap();
            let bits: Vec<bool> = f[2].chars().map(|c| c == '1').collect();
            match st.progs[&id].parse_output(&bits) {
                Ok(l) => format!("ok\t{}", hex(&format!("{l}"))),
                Err(e) => format!("err\t{}", hex(&format!("{e:?}"))),
            }
        }
        "evallit" => {
            // evallit <id> <literal text hex>... -> Evaluator::parse_literal per parameter, run, print the result
            let id: usize = f[1].parse().unwrap();
            let p = &st.progs[&id];
            let mut ev = p.evaluator();
            let mut bad = None;
            for (i, t) in f[2..].iter().enumerate() {
                if let Err(e) = ev.parse_literal(&unhex(t)) {
                    bad = Some(format!("err\tliteral{i}\t{}", hex(&format!("{e:?}"))));
                    break;
                }
            }
            match bad {
                Some(b) => b,
                None => match ev.run() {
                    Ok(o) => match o.into_literal() {
                        Ok(l) => format!("ok\t{}", hex(&format!("{l}"))),
                        Err(e) => format!("err\tresult\t{}", hex(&format!("{e:?}"))),
                    },
                    Err(e) => format!("err\trun\t{}", hex(&format!("{e:?}"))),
                },
            }
        }
        "arg" => {
            // arg <id> <index> <literal text hex> -> parse_arg + as_bits
            let id: usize = f[1].parse().unwrap();
            let idx: usize = f[2].parse().unwrap();
            let txt = unhex(f[3]);
            match st.progs[&id].parse_arg(idx, &txt) {
                Ok(a) => format!("ok\t{}\t{}", fmt_bits(&a.as_bits()), hex(&format!("{a}"))),
                Err(e) => format!("err\t{}", hex(&format!("{e:?}"))),
            }
        }
        "builder" => {
            // builder <cache 0|1> <inputs> <requests ';'> <outputs ','>
            // operand refs: c0 c1 iK rK (result K) rK' (second result of adder K)
            let cache = f[1] == "1";
            let inputs = parse_list(f[2]);
            let mut b = Builder::new(inputs, cache);
            let mut res: Vec<(usize, usize)> = vec![];
            let resolve = |r: &str, res: &Vec<(usize, usize)>| -> usize {
                if r == "c0" {
                    0
                } else if r == "c1" {
                    1
                } else if let Some(k) = r.strip_prefix('i') {
                    2 + k.parse::<usize>().unwrap()
                } else if let Some(k) = r.strip_prefix('r') {
                    if let Some(k) = k.strip_suffix('\'') {
                        res[k.parse::<usize>().unwrap()].1
                    } else {
                        res[k.parse::<usize>().unwrap()].0
                    }
                } else {
                    panic!("bad ref {r}")
                }
            };
            if f[3] != "-" {
                for rq in f[3].split(';') {
                    let p: Vec<&str> = rq.split(' ').collect();
                    let a = |i: usize| resolve(p[i], &res);
                    let out = match p[0] {
                        "x" => (b.push_xor(a(1), a(2)), usize::MAX),
                        "a" => (b.push_and(a(1), a(2)), usize::MAX),
                        "n" => (b.push_not(a(1)), usize::MAX),
                        "o" => (b.push_or(a(1), a(2)), usize::MAX),
                        "e" => (b.push_eq(a(1), a(2)), usize::MAX),
                        "m" => (b.push_mux(a(1), a(2), a(3)), usize::MAX),
                        "d" => b.push_adder(a(1), a(2), a(3)),
                        _ => panic!("bad request {rq}"),
                    };
                    res.push(out);
                }
            }
            let outs: Vec<usize> = if f[4] == "-" {
                vec![]
            } else {
                f[4].split(',').map(|r| resolve(r, &res)).collect()
            };
            let raw: Vec<String> = res
                .iter()
                .map(|(x, y)| {
                    if *y == usize::MAX {
                        format!("{x}")
                    } else {
                        format!("{x}/{y}")
                    }
                })
                .collect();
            let c = b.build(outs);
            let v = match c.validate() {
                Ok(()) => "valid".to_string(),
                Err(e) => format!("invalid:{e:?}"),
            };
            format!("ok\t{}\t{v}\t{}", fmt_circuit(&c), raw.join(","))
        }
        "lit" => {
            // lit u <n> <suffix> <against type>   | lit s <n> <suffix> <against type> | lit r <min> <max> <suffix> <size>
            // -> ok <accepted 0|1> <bits or ->   (type test + encoding of a programmatic Literal)
            let prg = garble_lang::check("pub fn main(x: u8) -> u8 { x }").unwrap();
            let prim = |t: &str| -> garble_lang::ast::Type {
                match t {
                    "bool" => garble_lang::ast::Type::Bool,
                    "i8" | "i16" | "i32" | "i64" => garble_lang::ast::Type::Signed(signed_ty(t)),
                    _ => garble_lang::ast::Type::Unsigned(unsigned_ty(t)),
                }
            };
            let (lit, ty) = match f[1] {
                "u" => (Literal::NumUnsigned(f[2].parse().unwrap(), unsigned_ty(f[3])), prim(f[4])),
                "s" => (Literal::NumSigned(f[2].parse().unwrap(), signed_ty(f[3])), prim(f[4])),
                "r" => (
                    Literal::Range(f[2].parse().unwrap(), f[3].parse().unwrap(), unsigned_ty(f[4])),
                    garble_lang::ast::Type::Array(Box::new(prim(f[4])), f[5].parse().unwrap()),
                ),
                _ => panic!("bad lit request"),
            };
            let accepted = lit.is_of_type(&prg, &ty);
            let bits = if accepted { fmt_bits(&lit.as_bits(&prg, &HashMap::new())) } else { "-".to_string() };
            format!("ok\t{}\t{bits}", accepted as u8)
        }
        "dec" => {
            // dec <type> <bits> -> from_unwrapped_bits
            let prg = garble_lang::check("pub fn main(x: u8) -> u8 { x }").unwrap();
            let ty = match f[1] {
                "bool" => garble_lang::ast::Type::Bool,
                "i8" | "i16" | "i32" | "i64" => garble_lang::ast::Type::Signed(signed_ty(f[1])),
                t => garble_lang::ast::Type::Unsigned(unsigned_ty(t)),
            };
            let bits: Vec<bool> = f[2].chars().map(|c| c == '1').collect();
            match Literal::from_unwrapped_bits(&prg, &ty, &bits, &HashMap::new()) {
                Ok(l) => format!("ok\t{}", hex(&format!("{l}"))),
                Err(e) => format!("err\t{}", hex(&format!("{e:?}"))),
            }
        }
        "sorter" => {
            // sorter <kind merge|sort> <bits> <elem_bits> <n> <ascending 0|1> : n elements of elem_bits input bits
            // each (one party per element), compared on their first <bits> bits.
            let kind = f[1];
            let bits: usize = f[2].parse().unwrap();
            let elem_bits: usize = f[3].parse().unwrap();
            let n: usize = f[4].parse().unwrap();
            let asc = f[5] == "1";
            let mut b = Builder::new(vec![elem_bits; n], true);
            let mut elems: Vec<Vec<usize>> = (0..n)
                .map(|i| (0..elem_bits).map(|j| 2 + i * elem_bits + j).collect())
                .collect();
            if kind == "merge" {
                b.push_bitonic_merger(bits, asc, &mut elems);
            } else {
                b.push_bitonic_sorter(bits, &mut elems);
            }
            let c = b.build(elems.concat());
            format!("ok\t{}", fmt_circuit(&c))
        }
        _ => format!("err\tprotocol\t1\t{}", hex(line)),
    }
}

fn panic_msg(p: &Box<dyn std::any::Any + Send>) -> String {
    if let Some(s) = p.downcast_ref::<&str>() {
        s.to_string()
    } else if let Some(s) = p.downcast_ref::<String>() {
        s.clone()
    } else {
        "<non-string panic>".to_string()
    }
}

fn main() {
    std::panic::set_hook(Box::new(|_| {}));
    let stdin = std::io::stdin();
    let stdout = std::io::stdout();
    let mut st = State {
        progs: HashMap::new(),
        next: 0,
    };
    for line in stdin.lock().lines() {
        let line = match line {
            Ok(l) => l,
            Err(_) => break,
        };
        if line.is_empty() {
            continue;
        }
        let resp = match catch_unwind(AssertUnwindSafe(|| handle(&mut st, &line))) {
            Ok(r) => r,
            Err(p) => format!("panic\t{}", hex(&panic_msg(&p))),
        };
        let mut out = stdout.lock();
        out.write_all(resp.as_bytes()).unwrap();
        out.write_all(b"\n").unwrap();
        out.flush().unwrap();
    }
}
