#!/bin/bash
# usage: mutate_test.sh <patch.diff> <property> [<property> ...]   -- applies the patch to /repo, runs the
# quick checks, restores /repo. Prints one line per property with the exit code.
set -u
patch=$(realpath "$1"); shift
cd /repo || exit 3
if ! git diff --quiet; then echo "/repo has uncommitted changes"; exit 3; fi
git apply "$patch" || { echo "patch does not apply"; exit 3; }
export VERIF_EVIDENCE_DIR=/verif/build/tmp/evidence-mutated   # evidence/ is only written by runs against the tree as it stands
for p in "$@"; do
  out=$(cd /verif && timeout 3000 python3-vt engine/run.py --property "$p" --tier "${TIER:-quick}" 2>&1)
  code=$?
  echo "== $p exit=$code :: $(echo "$out" | grep -c '^VIOLATION') violations :: $(echo "$out" | tail -1)"
  if [ "${VERBOSE:-0}" = 1 ]; then echo "$out" | grep -A1 '^VIOLATION' | head -8; fi
done
git -C /repo checkout -- . 
