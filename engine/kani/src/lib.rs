//! Kani proof harnesses over the real garble_lang code (path dependency on /repo).
//! C16: a circuit that passes validation can be evaluated safely (SSA and register form).
//! Shapes (party sizes, number of gates / instructions / outputs) are concrete -- symbolic Vec
//! lengths do not get through CBMC here -- everything else is symbolic: gate kinds and operands
//! (any usize: forward, self, out of range), output indices, instruction registers (any u32),
//! party / index of input instructions (any u32), max_reg_count, and all input bits.
#![allow(dead_code)]

#[cfg(kani)]
mod c16 {
    use garble_lang::circuit::{Circuit, Gate};
    use garble_lang::register_circuit as rc;
    use std::mem::ManuallyDrop;

    fn any_gate() -> Gate {
        let k: u8 = kani::any();
        let a: usize = kani::any();
        let b: usize = kani::any();
        match k % 3 {
            0 => Gate::Xor(a, b),
            1 => Gate::And(a, b),
            _ => Gate::Not(a),
        }
    }

    fn any_inputs(shape: &[usize]) -> Vec<Vec<bool>> {
        shape.iter().map(|&n| (0..n).map(|_| kani::any()).collect()).collect()
    }

    fn ssa(shape: &[usize], gates: usize, outputs: usize) {
        let c = ManuallyDrop::new(Circuit {
            input_gates: shape.to_vec(),
            gates: (0..gates).map(|_| any_gate()).collect(),
            output_gates: (0..outputs).map(|_| kani::any()).collect(),
        });
        let inputs = ManuallyDrop::new(any_inputs(shape));
        if c.validate().is_ok() {
            kani::cover!(true, "some circuit of this shape passes validation");
            // eval must not panic / index out of bounds / unwrap a None ...
            let out = ManuallyDrop::new(c.eval(&inputs));
            // ... and returns exactly one bit per declared output
            assert!(out.len() == outputs);
        }
    }

    fn any_inst() -> rc::Inst {
        let k: u8 = kani::any();
        let out = rc::Reg(kani::any());
        let a = rc::Reg(kani::any());
        let b = rc::Reg(kani::any());
        let op = match k % 4 {
            0 => rc::Op::Xor(rc::Xor(a, b)),
            1 => rc::Op::And(rc::And(a, b)),
            2 => rc::Op::Not(rc::Not(a)),
            _ => rc::Op::Input(rc::Input { party: kani::any(), input: kani::any() }),
        };
        rc::Inst { out, op }
    }

    fn reg(shape: &[usize], insts: usize, outputs: usize) {
        let max_reg_count: usize = kani::any();
        kani::assume(max_reg_count <= 4);
        let c = ManuallyDrop::new(rc::Circuit {
            input_regs: shape.to_vec(),
            insts: (0..insts).map(|_| any_inst()).collect(),
            max_reg_count,
            output_regs: (0..outputs).map(|_| rc::Reg(kani::any())).collect(),
            and_ops: kani::any(),
        });
        let inputs = ManuallyDrop::new(any_inputs(shape));
        if c.validate().is_ok() {
            kani::cover!(true, "some register circuit of this shape passes validation");
            // shadow definedness: every register is written before it is read or output
            let mut written = [false; 4];
            for inst in c.insts.iter() {
                match inst.op {
                    rc::Op::Xor(rc::Xor(a, b)) | rc::Op::And(rc::And(a, b)) => {
                        assert!((a.0 as usize) < max_reg_count && written[a.0 as usize]);
                        assert!((b.0 as usize) < max_reg_count && written[b.0 as usize]);
                    }
                    rc::Op::Not(rc::Not(a)) => {
                        assert!((a.0 as usize) < max_reg_count && written[a.0 as usize]);
                    }
                    rc::Op::Input(rc::Input { party, input }) => {
                        assert!((party as usize) < shape.len() && (input as usize) < shape[party as usize]);
                    }
                }
                assert!((inst.out.0 as usize) < max_reg_count);
                written[inst.out.0 as usize] = true;
            }
            for o in c.output_regs.iter() {
                assert!((o.0 as usize) < max_reg_count && written[o.0 as usize]);
            }
            let out = ManuallyDrop::new(c.eval(&inputs));
            assert!(out.len() == outputs);
        }
    }

    include!("c16_harnesses.rs");
}
