//! Kani proof harnesses over the real garble_lang code (path dependency on /repo).
//! C16: a circuit that passes validation can be evaluated safely (SSA and register form).
//! Shapes (party sizes, number of gates / instructions / outputs) are concrete -- symbolic Vec
//! lengths do not get through CBMC here -- everything else is symbolic: gate kinds and operands
//! (any usize: forward, self, out of range), output indices, instruction registers (any u32),
//! party / index of input instructions (any u32), max_reg_count, and all input bits.
#![allow(dead_code)]

#[cfg(kani)]
mod c16 {
    use garble_lang::circuit::{Circuit, Gate};
    use garble_lang::register_circuit as rc;
    use std::mem::ManuallyDrop;

    fn any_gate() -> Gate {
        let k: u8 = kani::any();
        let a: usize = kani::any();
        let b: usize = kani::any();
        match k % 3 {
            0 => Gate::Xor(a, b),
            1 => Gate::And(a, b),
            _ => Gate::Not(a),
        }
    }

    fn any_inputs(shape: &[usize]) -> Vec<Vec<bool>> {
        shape.iter().map(|&n| (0..n).map(|_| kani::any()).collect()).collect()
    }

    fn ssa(shape: &[usize], gates: usize, outputs: usize) {
        let c = ManuallyDrop::new(Circuit {
            input_gates: shape.to_vec(),
            gates: (0..gates).map(|_| any_gate()).collect(),
            output_gates: (0..outputs).map(|_| kani::any()).collect(),
        });
        let inputs = ManuallyDrop::new(any_inputs(shape));
        if c.validate().is_ok() {
            kani::cover!(true, "some circuit of this shape passes validation");
            // eval must not panic / index out of bounds / unwrap a None ...
            let out = ManuallyDrop::new(c.eval(&inputs));
            // ... and returns exactly one bit per declared output
            assert!(out.len() == outputs);
        }
    }

    fn any_inst() -> rc::Inst {
        let k: u8 = kani::any();
        let out = rc::Reg(kani::any());
        let a = rc::Reg(kani::any());
        let b = rc::Reg(kani::any());
        let op = match k % 4 {
            0 => rc::Op::Xor(rc::Xor(a, b)),
            1 => rc::Op::And(rc::And(a, b)),
            2 => rc::Op::Not(rc::Not(a)),
            _ => rc::Op::Input(rc::Input { party: kani::any(), input: kani::any() }),
        };
        rc::Inst { out, op }
    }

    fn reg(shape: &[usize], insts: usize, outputs: usize) {
        let max_reg_count: usize = kani::any();
        kani::assume(max_reg_count <= 4);
        let c = ManuallyDrop::new(rc::Circuit {
            input_regs: shape.to_vec(),
            insts: (0..insts).map(|_| any_inst()).collect(),
            max_reg_count,
            output_regs: (0..outputs).map(|_| rc::Reg(kani::any())).collect(),
            and_ops: kani::any(),
        });
        let inputs = ManuallyDrop::new(any_inputs(shape));
        if c.validate().is_ok() {
            kani::cover!(true, "some register circuit of this shape passes validation");
            // shadow definedness: every register is written before it is read or output
            let mut written = [false; 4];
            for inst in c.insts.iter() {
                match inst.op {
                    rc::Op::Xor(rc::Xor(a, b)) | rc::Op::And(rc::And(a, b)) => {
                        assert!((a.0 as usize) < max_reg_count && written[a.0 as usize]);
                        assert!((b.0 as usize) < max_reg_count && written[b.0 as usize]);
                    }
                    rc::Op::Not(rc::Not(a)) => {
                        assert!((a.0 as usize) < max_reg_count && written[a.0 as usize]);
                    }
                    rc::Op::Input(rc::Input { party, input }) => {
                        assert!((party as usize) < shape.len() && (input as usize) < shape[party as usize]);
                    }
                }
                assert!((inst.out.0 as usize) < max_reg_count);
                written[inst.out.0 as usize] = true;
            }
            for o in c.output_regs.iter() {
                assert!((o.0 as usize) < max_reg_count && written[o.0 as usize]);
            }
            let out = ManuallyDrop::new(c.eval(&inputs));
            assert!(out.len() == outputs);
        }
    }

    include!("c16_harnesses.rs");
}

/// C09: the literal bit codec. `is_of_type` => `as_bits` gives exactly size(T) bits in the documented
/// layout (big-endian two's complement; aggregates concatenated); decoding any pattern of size(T) bits
/// yields the value with that layout; anything `is_of_type` accepts denotes a value of T.
#[cfg(kani)]
mod c09 {
    use garble_lang::ast::{Program, Type};
    use garble_lang::literal::Literal;
    use garble_lang::token::{SignedNumType, UnsignedNumType};
    use garble_lang::TypedProgram;
    use std::collections::HashMap;
    use std::mem::ManuallyDrop;

    fn rs_stub() -> std::hash::RandomState {
        // the maps of the harness program stay empty, the keys are never used
        unsafe { std::mem::transmute([0u64; 2]) }
    }

    fn empty_program() -> ManuallyDrop<TypedProgram> {
        ManuallyDrop::new(Program {
            const_deps: HashMap::new(),
            const_defs: HashMap::new(),
            struct_defs: HashMap::new(),
            enum_defs: HashMap::new(),
            fn_defs: HashMap::new(),
        })
    }

    fn max_unsigned(bits: usize) -> u64 {
        if bits == 64 { u64::MAX } else { (1u64 << bits) - 1 }
    }

    /// L1 + L3 for unsigned integers
    fn enc_unsigned(ty: UnsignedNumType, bits: usize) {
        let prg = empty_program();
        let sizes = ManuallyDrop::new(HashMap::new());
        let n: u64 = kani::any();
        let lit = ManuallyDrop::new(Literal::NumUnsigned(n, ty));
        let t = ManuallyDrop::new(Type::Unsigned(ty));
        if lit.is_of_type(&prg, &t) {
            kani::cover!(true, "some literal is accepted");
            // L3: an accepted literal denotes a value of the type (no silent truncation)
            assert!(n <= max_unsigned(bits));
            // L1: exactly size(T) bits, big-endian
            let b = ManuallyDrop::new(lit.as_bits(&prg, &sizes));
            assert!(b.len() == bits);
            let mut i = 0;
            while i < bits {
                assert!(b[i] == ((n >> (bits - 1 - i)) & 1 == 1));
                i += 1;
            }
        }
        // the type test refuses every other primitive type
        let other = ManuallyDrop::new(Type::Bool);
        assert!(!lit.is_of_type(&prg, &other));
    }

    /// L1 + L3 for signed integers
    fn enc_signed(ty: SignedNumType, bits: usize) {
        let prg = empty_program();
        let sizes = ManuallyDrop::new(HashMap::new());
        let n: i64 = kani::any();
        let lit = ManuallyDrop::new(Literal::NumSigned(n, ty));
        let t = ManuallyDrop::new(Type::Signed(ty));
        if lit.is_of_type(&prg, &t) {
            kani::cover!(true, "some literal is accepted");
            if bits < 64 {
                assert!(n >= -(1i64 << (bits - 1)) && n <= (1i64 << (bits - 1)) - 1);
            }
            let b = ManuallyDrop::new(lit.as_bits(&prg, &sizes));
            assert!(b.len() == bits);
            let mut i = 0;
            while i < bits {
                assert!(b[i] == ((n >> (bits - 1 - i)) & 1 == 1));
                i += 1;
            }
        }
    }

    /// L2 for unsigned integers: every pattern of size(T) bits decodes to the value with that layout
    fn dec_unsigned<const BITS: usize>(ty: UnsignedNumType) {
        let prg = empty_program();
        let sizes = ManuallyDrop::new(HashMap::new());
        let bits: [bool; BITS] = kani::any();
        let t = ManuallyDrop::new(Type::Unsigned(ty));
        let r = ManuallyDrop::new(Literal::from_unwrapped_bits(&prg, &t, &bits, &sizes));
        let mut want: u64 = 0;
        let mut i = 0;
        while i < BITS {
            want = (want << 1) | (bits[i] as u64);
            i += 1;
        }
        match &*r {
            Ok(Literal::NumUnsigned(n, t2)) => {
                assert!(*n == want);
                assert!(*t2 == ty);
            }
            _ => panic!("decoding size(T) bits must yield an unsigned literal"),
        }
    }

    fn dec_signed<const BITS: usize>(ty: SignedNumType) {
        let prg = empty_program();
        let sizes = ManuallyDrop::new(HashMap::new());
        let bits: [bool; BITS] = kani::any();
        let t = ManuallyDrop::new(Type::Signed(ty));
        let r = ManuallyDrop::new(Literal::from_unwrapped_bits(&prg, &t, &bits, &sizes));
        let mut raw: u64 = 0;
        let mut i = 0;
        while i < BITS {
            raw = (raw << 1) | (bits[i] as u64);
            i += 1;
        }
        // two's complement value of the BITS-bit pattern
        let want: i64 = if BITS == 64 {
            raw as i64
        } else if bits[0] {
            (raw as i64) - (1i64 << BITS)
        } else {
            raw as i64
        };
        match &*r {
            Ok(Literal::NumSigned(n, t2)) => {
                assert!(*n == want);
                assert!(*t2 == ty);
            }
            _ => panic!("decoding size(T) bits must yield a signed literal"),
        }
    }

    include!("c09_harnesses.rs");

    fn enc_bool_value(lit: Literal, v: bool) {
        let prg = empty_program();
        let sizes = ManuallyDrop::new(HashMap::new());
        let lit = ManuallyDrop::new(lit);
        let t = ManuallyDrop::new(Type::Bool);
        assert!(lit.is_of_type(&prg, &t));
        let b = ManuallyDrop::new(lit.as_bits(&prg, &sizes));
        assert!(b.len() == 1 && b[0] == v);
        let other = ManuallyDrop::new(Type::Unsigned(UnsignedNumType::U8));
        assert!(!lit.is_of_type(&prg, &other));
    }

    #[kani::proof]
    #[kani::stub(std::hash::RandomState::new, rs_stub)]
    #[kani::unwind(4)]
    fn enc_bool() {
        // the literal's variant is kept concrete (a symbolic variant makes CBMC explore every arm of as_bits)
        enc_bool_value(Literal::True, true);
        enc_bool_value(Literal::False, false);
    }

    #[kani::proof]
    #[kani::stub(std::hash::RandomState::new, rs_stub)]
    #[kani::unwind(4)]
    fn dec_bool() {
        let prg = empty_program();
        let sizes = ManuallyDrop::new(HashMap::new());
        let bits: [bool; 1] = kani::any();
        let t = ManuallyDrop::new(Type::Bool);
        let r = ManuallyDrop::new(Literal::from_unwrapped_bits(&prg, &t, &bits, &sizes));
        match &*r {
            Ok(Literal::True) => assert!(bits[0]),
            Ok(Literal::False) => assert!(!bits[0]),
            _ => panic!("decoding one bit must yield a bool literal"),
        }
    }

    /// ranges: `min..max` is accepted for [T; size] only if it denotes exactly `size` values of T; the type
    /// test must answer for every (min, max) and never panic. (as_bits of a range builds a Vec of symbolic
    /// length, which does not get through CBMC; the layout of ranges is covered by the TV identity programs.)
    fn range(ty: UnsignedNumType, bits: usize, size: usize) {
        let prg = empty_program();
        let min: u64 = kani::any();
        let max: u64 = kani::any();
        let lit = ManuallyDrop::new(Literal::Range(min, max, ty));
        let t = ManuallyDrop::new(Type::Array(Box::new(Type::Unsigned(ty)), size));
        if lit.is_of_type(&prg, &t) {
            kani::cover!(true, "some range literal is accepted");
            assert!(min <= max && max - min == size as u64);
            assert!(max - 1 <= max_unsigned(bits));
        }
        let wrong_elem = ManuallyDrop::new(Type::Array(Box::new(Type::Bool), size));
        assert!(!lit.is_of_type(&prg, &wrong_elem));
    }

    // (tried: `min..min + 2` with symbolic min and concrete length through as_bits -- CBMC times out at 400 s
    //  on the `(min..max).collect()` inside as_bits, for u16 as well as u64; the encoding of range literals is
    //  therefore outside this check)
    #[kani::proof]
    #[kani::stub(std::hash::RandomState::new, rs_stub)]
    #[kani::unwind(4)]
    fn range_u8() {
        range(UnsignedNumType::U8, 8, 2);
    }

    #[kani::proof]
    #[kani::stub(std::hash::RandomState::new, rs_stub)]
    #[kani::unwind(4)]
    fn range_u16() {
        range(UnsignedNumType::U16, 16, 3);
    }

    #[kani::proof]
    #[kani::stub(std::hash::RandomState::new, rs_stub)]
    #[kani::unwind(4)]
    fn range_u32() {
        range(UnsignedNumType::U32, 32, 2);
    }

    #[kani::proof]
    #[kani::stub(std::hash::RandomState::new, rs_stub)]
    #[kani::unwind(4)]
    fn range_u64() {
        range(UnsignedNumType::U64, 64, 3);
    }

    #[kani::proof]
    #[kani::stub(std::hash::RandomState::new, rs_stub)]
    #[kani::unwind(4)]
    fn range_usize() {
        range(UnsignedNumType::Usize, 32, 1);
    }

    /// a literal of one primitive type is refused for every other primitive type
    #[kani::proof]
    #[kani::stub(std::hash::RandomState::new, rs_stub)]
    #[kani::unwind(8)]
    fn typetest_mismatch() {
        let prg = empty_program();
        let n: u64 = kani::any();
        let lit = ManuallyDrop::new(Literal::NumUnsigned(n, UnsignedNumType::U16));
        for t in [
            Type::Unsigned(UnsignedNumType::U8),
            Type::Unsigned(UnsignedNumType::U32),
            Type::Unsigned(UnsignedNumType::Usize),
            Type::Signed(SignedNumType::I16),
            Type::Bool,
        ] {
            let t = ManuallyDrop::new(t);
            assert!(!lit.is_of_type(&prg, &t));
        }
    }
}
