#!/usr/bin/env python3
"""Entry point of every check:  run.py --property Cxx [--tier quick|thorough]

exit 0: property held on everything explored (KNOWN-FINDING lines allowed)
exit 1: at least one replayed violation not listed in known_findings.txt (VIOLATION line printed)
exit 2: inconclusive infrastructure failure (build broke, solver error, non-reproducing
        counterexample, too many timeouts) -- never reported as a pass or as a violation
"""
import argparse, importlib, json, multiprocessing as mp, os, subprocess, sys, time, traceback

HERE = os.path.dirname(os.path.abspath(__file__))
VERIF = os.path.dirname(HERE)
sys.path.insert(0, os.path.join(HERE, "tv"))
sys.path.insert(0, os.path.join(HERE, "checks"))
sys.path.insert(0, HERE)

import drv  # noqa: E402

KNOWN = os.path.join(VERIF, "known_findings.txt")
_worker = {}


def load_known(prop):
    """-> {key: text} of `finding:` lines for this property"""
    out = {}
    if not os.path.exists(KNOWN):
        return out
    for line in open(KNOWN):
        line = line.strip()
        if not line.startswith("finding:"):
            continue
        parts = line[len("finding:"):].split()
        kv = dict(p.split("=", 1) for p in parts[:2] if "=" in p)
        if kv.get("property") == prop and "key" in kv:
            out[kv["key"]] = " ".join(parts[2:])
    return out


def repo_state():
    def g(*a):
        try:
            return subprocess.run(["git", "-C", "/repo"] + list(a), stdout=subprocess.PIPE,
                                  stderr=subprocess.DEVNULL, text=True).stdout.strip()
        except Exception:
            return "?"
    return {"head": g("rev-parse", "--short", "HEAD"), "dirty": bool(g("status", "--porcelain", "--untracked-files=no"))}


def _init_worker(modname):
    import random
    _worker["mod"] = importlib.import_module(modname)
    _worker["drv"] = drv.Driver()


def _do(item):
    mod = _worker["mod"]
    try:
        return mod.work(item, _worker["drv"])
    except Exception as e:  # infrastructure failure of this item
        return {"item": item, "error": "%s: %s" % (type(e).__name__, e), "trace": traceback.format_exc()[-1500:]}


def replay(prop, path):
    """Re-run a recorded counterexample against the real code of /repo's working tree (natively, no solver).
    exit 1 if the recorded disagreement is still there, 0 if it is gone, 2 if the file cannot be replayed."""
    rec = json.load(open(path))
    d = drv.Driver()
    print("replaying %s (%s)" % (path, rec.get("text", "")[:200]))
    if "source" in rec and rec.get("source") and "inputs" in rec and isinstance(rec["inputs"], list) and all(isinstance(x, str) for x in rec["inputs"]):
        r = d.compile(rec["source"], dedup=rec.get("dedup", True) is not False, consts=rec.get("constants", "-") if isinstance(rec.get("constants"), str) else "-")
        if r[0] != "ok":
            print("compile: %s" % (r[:3],))
            return 1 if rec.get("status") in ("compiler_panic", "shape") else 2
        parties = [[int(c) for c in p] for p in rec["inputs"]]
        out = d.eval(r[1], parties)
        s_out = "".join(map(str, out))
        pan = bool(out[0])
        recv = 0
        for b in out[1:161]:
            recv = (recv << 1) | b
        val = 0
        for b in out[161:]:
            val = (val << 1) | b
        print("real circuit now: panic=%s record=%s value_bits=%d" % (pan, recv, val))
        if "ref_panicked" in rec:
            print("reference (recorded): panic=%s record=%s value_bits=%s" % (rec["ref_panicked"], rec.get("ref_record"), rec.get("ref_value_bits")))
            q = rec.get("query")
            rr = rec.get("ref_record") or {}
            ref_rec = (rr.get("reason", 0) << 128) | sum(x << (32 * (3 - i)) for i, x in enumerate(rr.get("span", [0, 0, 0, 0])))
            if q == "panic":
                still = pan != rec["ref_panicked"]
            elif q == "loc":
                still = pan and rec["ref_panicked"] and recv != ref_rec
            else:
                still = (not rec["ref_panicked"]) and (pan or s_out == rec.get("real_output"))
            print("disagreement still present" if still else "disagreement gone")
            return 1 if still else 0
        same = s_out == rec.get("real_output", rec.get("output_dedup_on"))
        print("same output as recorded" if same else "output differs from the recorded one")
        return 1 if same else 0
    if rec.get("source") and "inputs" not in rec:
        r = d.compile(rec["source"], dedup=rec.get("dedup", True) is not False, consts=rec.get("constants", "-") if isinstance(rec.get("constants"), str) else "-")
        print("compile now: %s" % (str(r[:4])[:400],))
        bad = r[0] != "ok" or (len(r) > 3 and r[3] != "valid")
        print("problem still present" if bad else "compiles to a valid circuit now")
        return 1 if bad else 0
    for key, fn in (("circuit", None), ("ssa", None)):
        if key in rec and isinstance(rec.get(key), str) and rec[key].startswith("i:"):
            text = rec[key]
            parties = [[int(c) for c in p] for p in rec.get("inputs", [])] if rec.get("inputs") and isinstance(rec["inputs"][0], str) else rec.get("inputs", [])
            if "|p:" in text:
                print("validate:", d.req("validater", text), "eval:", d.evalr(text, parties))
            else:
                print("validate:", d.req("validate", text), "eval:", d.evalc(text, parties))
            if "register" in rec:
                print("register eval:", d.evalr(rec["register"], parties))
            return 1
    print("nothing replayable in this file (keys: %s)" % sorted(rec))
    return 2


def main():
    ap = argparse.ArgumentParser()
    ap.add_argument("--property")
    ap.add_argument("--tier", default=os.environ.get("VERIF_TIER", "quick"))
    ap.add_argument("--setup", action="store_true")
    ap.add_argument("--jobs", type=int, default=int(os.environ.get("VERIF_JOBS", "14")))
    ap.add_argument("--replay")
    args = ap.parse_args()
    seed = int(os.environ.get("VERIF_SEED", "1"))
    tier = args.tier if args.tier in ("quick", "thorough") else "quick"
    os.makedirs(os.path.join(VERIF, "build", "tmp"), exist_ok=True)
    os.makedirs(os.path.join(VERIF, "evidence"), exist_ok=True)
    os.makedirs(os.path.join(VERIF, "replays"), exist_ok=True)
    os.environ["VERIF_TMP"] = os.path.join(VERIF, "build", "tmp")

    if args.setup:
        t = drv.build_driver()
        print("driver built in %.1fs" % t)
        return 0

    prop = args.property
    t0 = time.time()
    try:
        build_s = drv.build_driver()
    except Exception as e:
        print("INCONCLUSIVE: driver build failed against /repo's working tree: %s" % e)
        return 2
    mod = importlib.import_module(prop.lower())
    if args.replay:
        return replay(prop, args.replay)
    import glob
    for old in glob.glob(os.path.join(VERIF, "replays", "%s-*.json" % prop)):
        os.unlink(old)
    known = load_known(prop)
    ctx = {"tier": tier, "seed": seed, "known": known, "verif": VERIF, "jobs": args.jobs}
    if hasattr(mod, "run"):
        # checks that organise their own execution (e.g. Kani harnesses)
        out = mod.run(ctx)
    else:
        items = mod.plan(ctx)
        results = []
        if args.jobs <= 1:
            _init_worker(mod.__name__)
            for it in items:
                results.append(_do(it))
        else:
            with mp.Pool(args.jobs, initializer=_init_worker, initargs=(mod.__name__,)) as pool:
                for r in pool.imap_unordered(_do, items, chunksize=1):
                    results.append(r)
        out = mod.summarize(ctx, items, results)
    # out: {violations: [ {key, text, replay(dict)} ], inconclusive: int, errors: [..], coverage: {...},
    #       assumptions: [...], level: str, inconclusive_limit: int}
    wall = time.time() - t0
    code = 0
    unlisted = 0
    n = 0
    reported_known = set()
    for v in out.get("violations", []):
        key = v.get("key")
        if key in known:
            if key not in reported_known:
                print("KNOWN-FINDING: property=%s %s [%s]" % (prop, known[key], key))
                reported_known.add(key)
            continue
        n += 1
        unlisted += 1
        path = os.path.join(VERIF, "replays", "%s-%d.json" % (prop, n))
        with open(path, "w") as f:
            json.dump({"property": prop, "key": key, "text": v.get("text"), **v.get("replay", {})}, f, indent=1)
        print("VIOLATION property=%s replay=%s" % (prop, path))
        print("  " + str(v.get("text"))[:400])
        code = 1
    errs = out.get("errors", [])
    for e in errs[:10]:
        print("INCONCLUSIVE: %s" % str(e)[:600])
    if errs and code == 0:
        code = 2
    inconc = out.get("inconclusive", 0)
    if inconc > out.get("inconclusive_limit", 0) and code == 0:
        print("INCONCLUSIVE: %d queries undecided within the cap (limit %d)" % (inconc, out.get("inconclusive_limit", 0)))
        code = 2
    cov = out.get("coverage", {})
    cov.setdefault("repo", repo_state())
    cov.setdefault("driver_build_s", round(build_s, 1))
    cov["known_findings_reported"] = sorted(reported_known)
    cov["inconclusive_queries"] = inconc
    ev = {"property_id": prop, "tier": tier, "seed": seed, "level": out.get("level", "translation_validation"),
          "coverage": cov, "assumptions": out.get("assumptions", []), "wall_s": round(wall, 1),
          "violations": unlisted}
    # (engine/mutate_test.sh and engine/seed_matrix.py run the checks against deliberately broken trees and point this
    # elsewhere, so that evidence/ always describes a run against /repo as it stands)
    evdir = os.environ.get("VERIF_EVIDENCE_DIR") or os.path.join(VERIF, "evidence")
    os.makedirs(evdir, exist_ok=True)
    with open(os.path.join(evdir, "%s.json" % prop), "w") as f:
        json.dump(ev, f, indent=1)
    print("%s %s: %s in %.0fs (exit %d)" % (prop, tier, out.get("headline", ""), wall, code))
    return code


if __name__ == "__main__":
    sys.exit(main())
