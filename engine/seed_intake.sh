#!/bin/bash
# usage: seed_intake.sh <property id> <name> -- confirm a sub-agent's seeded change in its scratch worktree
# (/tmp/wt-<id>): existing suite passes with it, demo fails with it and passes without it; then copy it to seeded/.
set -u
id=$1; name=${2:-agent}
wt=${WT:-/tmp/wt-$id}
out=/verif/seeded/$id-$name
export CARGO_TARGET_DIR=$wt/target
cd $wt || exit 3
[ -f out/patch.diff ] || { echo "no patch"; exit 3; }
mkdir -p $out
mv tests/demo_seed.rs /tmp/demo_seed_$id.rs
suite=$(cargo test --workspace --no-fail-fast --offline 2>&1 | grep -E "^test result" | awk '{p+=$4; f+=$6} END {print p" passed, "f" failed"}')
mv /tmp/demo_seed_$id.rs tests/demo_seed.rs
with=$(cargo test --offline --test demo_seed 2>&1 | grep -E "^test result" | head -1)
git diff -- src > $wt/out/.intake.diff; git checkout -- src
without=$(cargo test --offline --test demo_seed 2>&1 | grep -E "^test result" | head -1)
git apply $wt/out/.intake.diff
echo "suite with change: $suite"; echo "demo with change: $with"; echo "demo without change: $without"
git diff -- src > $out/patch.diff
cp tests/demo_seed.rs $out/demo_seed.rs
cp out/notes.md $out/notes.md 2>/dev/null
echo "{\"suite_with_change\": \"$suite\", \"demo_with_change\": \"$with\", \"demo_without_change\": \"$without\"}" > $out/confirm.json
(cd /repo && git apply --check $out/patch.diff && echo "patch applies to /repo")
