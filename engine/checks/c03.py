"""C03 -- integer operators and casts are bit-exact at every width and overflow boundary."""
import random
import z3
import common, enc, ref, solve, tvcore
from lang import *

ALL_INTS = [U8, I8, U16, I16, U32, I32, U64, I64, USIZE]
BINOPS = list(ARITH) + list(BITW) + list(SHIFT) + list(CMP) + list(EQ)


def boundary(ty, tier):
    b = ty.bits
    c = {0, 1, 2, 3, ty.max, ty.max - 1, ty.min, b - 1, b, 1 << (b - 2), (1 << (b - 2)) + 1}
    if ty.signed:
        c |= {-1, -2, -3, ty.min + 1, -(b - 1), -b, -(1 << (b - 2))}
    if tier == "thorough":
        c |= {4, 5, 7, 8, b + 1, (1 << (b // 2)), (1 << (b // 2)) - 1, (1 << (b // 2)) + 1, ty.max - 2, 10, 100, 255 if b > 8 else 15}
        if ty.signed:
            c |= {-4, -5, -7, -8, -(b + 1), ty.min + 2, -(1 << (b // 2)), -100}
    return sorted(v for v in c if ty.min <= v <= ty.max)


def plan(ctx):
    tier, seed = ctx["tier"], ctx["seed"]
    items = []
    full_muldiv = 8 if tier == "quick" else 16
    for ty in ALL_INTS:
        for op in BINOPS:
            forms = []
            wide_md = op in ("*", "/", "%") and ty.bits > full_muldiv
            if not wide_md:
                forms.append(("vv",))
            consts = boundary(ty, tier)
            if op in SHIFT:
                sc = sorted({0, 1, 2, ty.bits - 1, ty.bits, ty.bits + 1, 7, 8, 63, 64, 128, 255})
                forms += [("vc", c) for c in sc]
                forms += [("cv", c) for c in consts[:10]]
            else:
                if op in ("/", "%") and ty.bits >= 32 and tier == "quick":
                    cs = [c for c in consts if abs(c) <= 3 or c in (ty.max, ty.min, -1)]
                else:
                    cs = consts
                forms += [("vc", c) for c in cs]
                if op in ("/", "%") and wide_md:
                    # a literal dividend with a free divisor is a full-width division: out of reach above 16 bits
                    forms += [("cv", c) for c in cs if abs(c) <= 3]
                else:
                    forms += [("cv", c) for c in cs]
            # the same literal forms without a type suffix (the literal node then carries no type of its own and is
            # typed by the other operand): small values, powers of two and the extremes
            def plain(c, t):
                return abs(c) <= 8 or (c > 0 and c & (c - 1) == 0 and c <= 256) or c in (t.max, t.min)
            forms += [("vu",) + f[1:] for f in forms if f[0] == "vc" and plain(f[1], U8 if op in SHIFT else ty)]
            forms += [("uv",) + f[1:] for f in forms if f[0] == "cv" and plain(f[1], ty)]
            if wide_md and tier == "thorough":
                forms += [("vq", c) for c in consts] + [("qv", c) for c in consts]
            # chunk
            n = 4 if wide_md else 12
            cap = (8.0 if wide_md else 20.0) if tier == "quick" else (60.0 if wide_md else 90.0)
            for i in range(0, len(forms), n):
                items.append({"kind": "bin", "ty": ty.name, "op": op, "forms": forms[i:i + n], "cap": cap,
                              "kissat": ty.bits <= 16})
        unary = ["!"] + (["-"] if ty.signed else [])
        items.append({"kind": "un", "ty": ty.name, "ops": unary, "cap": 20.0})
    items.append({"kind": "un", "ty": "bool", "ops": ["!"], "cap": 20.0})
    for op in list(BITW) + list(EQ):
        items.append({"kind": "bin", "ty": "bool", "op": op, "forms": [("vv",), ("vc", 0), ("vc", 1), ("cv", 0), ("cv", 1)], "cap": 20.0})
    prims = [BOOL] + ALL_INTS
    for s in prims:
        items.append({"kind": "cast", "src": s.src(), "dsts": [d.src() for d in prims], "cap": 20.0})
    return items


def ty_by_name(n):
    if n == "bool":
        return BOOL
    for t in ALL_INTS:
        if t.name == n:
            return t
    raise KeyError(n)


def main_prog(params, e):
    return Program([FnDef("main", params, e.ty, Block([], e), pub=True)])


def neg_const_mul_region(ty, c, xarg):
    """known finding: literal negative multiplier c in [-(bits-1), -2] and x*|c| == 2^(bits-1)"""
    if c >= -1 or -c >= ty.bits:
        return None
    m = 1 << (ty.bits - 1)
    if m % (-c) != 0:
        return None
    return xarg == z3.BitVecVal(m // (-c), ty.bits)


def work(item, drv):
    import time
    t_start = time.time()
    st = solve.Stats()
    rng = random.Random(hash((item.get("ty"), item.get("op"), str(item.get("forms")))) & 0xFFFFFF)
    out = {"item": item, "violations": [], "nonrepro": [], "programs": 0, "samples": [], "errors": [], "vectors": 0, "gates": 0}
    cases = []
    if item["kind"] == "bin":
        ty = ty_by_name(item["ty"])
        op = item["op"]
        rty = U8 if op in SHIFT else ty
        for form in item["forms"]:
            x, y = Var("x", ty), Var("y", rty)
            region = None
            extra = None
            if form[0] == "vv":
                prog = main_prog([("x", ty, False), ("y", rty, False)], Bin(op, x, y))
            elif form[0] in ("vc", "vu"):
                c = form[1]
                prog = main_prog([("x", ty, False), ("y", rty, False)], Bin(op, x, Lit(rty, c, suffix=form[0] == "vc")))
                if op == "*":
                    region = (lambda cc: (lambda args: neg_const_mul_region(ty, cc, args[0])))(c)
            elif form[0] in ("cv", "uv"):
                c = form[1]
                prog = main_prog([("x", ty, False), ("y", rty, False)], Bin(op, Lit(ty, c, suffix=form[0] == "cv"), y))
                if op == "*":
                    region = (lambda cc: (lambda args: neg_const_mul_region(ty, cc, args[1])))(c)
            elif form[0] == "vq":
                c = form[1]
                prog = main_prog([("x", ty, False), ("y", rty, False)], Bin(op, x, y))
                extra = (lambda cc: (lambda args: [args[1] == z3.BitVecVal(cc, rty.bits)]))(c)
            else:
                c = form[1]
                prog = main_prog([("x", ty, False), ("y", rty, False)], Bin(op, x, y))
                extra = (lambda cc: (lambda args: [args[0] == z3.BitVecVal(cc, ty.bits)]))(c)
            cases.append((prog, region, extra, "%s %s %s" % (ty.src(), op, form)))
    elif item["kind"] == "un":
        ty = ty_by_name(item["ty"])
        for op in item["ops"]:
            cases.append((main_prog([("x", ty, False)], Un(op, Var("x", ty))), None, None, "%s%s" % (op, ty.src())))
    else:
        s = ty_by_name(item["src"])
        for dn in item["dsts"]:
            d = ty_by_name(dn)
            cases.append((main_prog([("x", s, False)], Cast(Var("x", s), d)), None, None, "%s as %s" % (s.src(), dn)))
    for prog, region, extra, label in cases:
        for dedup in (True, False):
            if region is None:
                res = tvcore.analyze(drv, prog, dedup=dedup, cap=item["cap"], stats=st, rng=rng, vectors=2, extra_assume=extra, use_kissat=item.get("kissat", True))
                handle(res, out, label, None)
            else:
                # outside the listed region everything must hold; inside, report what is found under the finding's key
                def outside(args, region=region, extra=extra):
                    r = region(args)
                    return ([z3.Not(r)] if r is not None else []) + (extra(args) if extra else [])

                def inside(args, region=region, extra=extra):
                    r = region(args)
                    return ([r] if r is not None else [z3.BoolVal(False)]) + (extra(args) if extra else [])
                res = tvcore.analyze(drv, prog, dedup=dedup, cap=item["cap"], stats=st, rng=rng, vectors=2, extra_assume=outside, use_kissat=item.get("kissat", True))
                handle(res, out, label, None)
                if res["status"] == "ok":
                    res2 = tvcore.analyze(drv, prog, dedup=dedup, cap=item["cap"], stats=st, rng=rng, vectors=1, extra_assume=inside, use_kissat=item.get("kissat", True))
                    handle(res2, out, label, "neg-const-mul")
    out["stats"] = st.as_dict()
    out["wall"] = time.time() - t_start
    return out


def handle(res, out, label, key):
    if res["status"] != "ok":
        out["violations"].append({"key": "template-%s" % res["status"],
                                  "text": "%s: %s %s" % (label, res["status"], res.get("errors") or res.get("panic") or [f.as_dict() for f in res["findings"]]),
                                  "replay": {"source": res["src"], "status": res["status"]}})
        return
    out["programs"] += 1
    out["vectors"] += res.get("vectors_validated", 0)
    out["gates"] += res.get("gates", 0)
    if len(out["samples"]) < 1:
        out["samples"].append({"template": label, "source": res["src"], "verdicts": res["verdicts"], "gates": res["gates"]})
    for f in res["findings"]:
        d = f.as_dict()
        if f.kind == "disagreement":
            out["violations"].append({"key": key or ("operator-%s" % d["query"]),
                                      "text": "%s: %s query, inputs %s: circuit panic=%s %s value=%s, exact semantics panic=%s %s value=%s" % (
                                          label, d["query"], d["inputs"], d["real_panicked"], d["real_record"], d["real_value_bits"],
                                          d["ref_panicked"], d["ref_record"], d["ref_value_bits"]),
                                      "replay": {"source": res["src"], "template": label, **d}})
        else:
            out["nonrepro"].append(d)


def summarize(ctx, items, results):
    st = solve.Stats()
    viol, errors, samples = [], [], []
    programs = vectors = gates = 0
    for r in results:
        if "error" in r:
            errors.append("worker failure on %s: %s %s" % (r["item"], r["error"], r.get("trace", "")[-300:]))
            continue
        sd = r["stats"]
        st.queries += sd["queries"]; st.unsat += sd["unsat"]; st.sat += sd["sat"]; st.unknown += sd["inconclusive"]
        st.z3_s += sd["z3_seconds"]; st.kissat_s += sd["kissat_seconds"]; st.kissat_runs += sd["kissat_runs"]
        viol += r["violations"]
        programs += r["programs"]; vectors += r["vectors"]; gates += r["gates"]
        for d in r["nonrepro"]:
            errors.append("counterexample did not reproduce natively: %s" % str(d)[:300])
        if len(samples) < 4 and r["samples"]:
            samples += r["samples"][:1]
    tier = ctx["tier"]
    slow = sorted([(round(r.get("wall", 0), 1), r["item"].get("ty"), r["item"].get("op"), str(r["item"].get("forms"))[:80], r["stats"]["inconclusive"]) for r in results if "error" not in r], key=lambda x: -x[0])[:12]
    slow = [[str(v) for v in t] for t in slow]
    cov = {"slowest_items": slow, "programs": programs, "disagreements_checked": st.queries, "samples": samples,
           "explanation": "One program per (operator, type, operand form): `x op y` (both operands symbolic, full width), `x op C` / `C op x` with a boundary "
                          "literal in the program text (exercises the constant rewrites), unary operators, every ordered pair of primitive types for `as`; "
                          "each compiled with de-duplication on and off. Oracle: exact result in a width-doubled bit-vector domain; Overflow iff not representable, "
                          "DivByZero iff divisor 0, shift Overflow iff amount >= width. Three queries (value, panic iff, reason+location) over all operand values.",
           "templates_compiled": programs, "gates_encoded": gates, "encoder_validation_vectors": vectors, "solver": st.as_dict(),
           "bounds": {"full_width_both_symbolic": "all operators at every width except mul/div/rem above %d bits" % (8 if tier == "quick" else 16),
                      "wide_mul_div_rem": "one operand a literal of the boundary set (both tiers); thorough also the generic circuit with one operand fixed in the query",
                      "per_query_cap_s": 20 if tier == "quick" else 90},
           "functions_encoded": ["compile.rs Op::{Add,Sub,Mul,Div,Mod,Bit*,Shift*,cmp,Eq} lowering", "circuit.rs push_{addition,subtraction,negation,unsigned_division,signed_division,comparator}_circuit",
                                 "compile.rs Cast / extend_to_bits"]}
    return {"violations": viol, "errors": errors, "inconclusive": st.unknown, "inconclusive_limit": max(5, st.queries // 20),
            "coverage": cov, "level": "translation_validation",
            "assumptions": ["z3 bit-vector theory is the arithmetic oracle (bvmul/bvsdiv/bvsrem in a doubled width)", "usize is 32 bits wide",
                            "MIN % -1: either outcome accepted", "32/64-bit `* / %` with BOTH operands free is outside the claim (multiplier miters do not finish)",
                            "int -> bool casts (not in Rust) are taken to truncate to the lowest bit"],
            "headline": "%d operator/cast programs, %d queries (%d unsat, %d sat, %d undecided)" % (programs, st.queries, st.unsat, st.sat, st.unknown)}
