"""C16 -- a circuit that passes validation can be evaluated safely (Kani/CBMC over the real validate/eval)."""
import os, re, subprocess, sys, time, json, shutil
import common, drv as drvmod
from lang import render

VERIF = os.path.dirname(os.path.dirname(os.path.dirname(os.path.abspath(__file__))))
KANI_DIR = os.path.join(VERIF, "engine", "kani")
sys.path.insert(0, KANI_DIR)
import harness_table  # noqa: E402


def kani(args, target, timeout):
    env = dict(os.environ)
    env["CARGO_NET_OFFLINE"] = "true"
    cmd = ["cargo", "kani", "--target-dir", target, "--output-format", "terse"] + args
    try:
        p = subprocess.run(cmd, cwd=KANI_DIR, env=env, stdout=subprocess.PIPE, stderr=subprocess.STDOUT, text=True, timeout=timeout)
        return p.returncode, p.stdout
    except subprocess.TimeoutExpired as e:
        return 124, (e.stdout or "") if isinstance(e.stdout, str) else (e.stdout or b"").decode(errors="replace")


def parse(output):
    """-> {harness: {status, checks, failed, cover_sat, cover_total, time, failed_checks}}"""
    res = {}
    cur = {}
    last_thread = "0"
    lines = output.split("\n")
    for i, ln in enumerate(lines):
        m = re.match(r"(?:Thread (\d+): )?Checking harness (\S+?)\.\.\.", ln)
        if m:
            t = m.group(1) or "0"
            cur[t] = m.group(2).split("::")[-1]
            res.setdefault(cur[t], {"status": "unknown", "failed_checks": []})
            last_thread = t
            continue
        m = re.match(r"Thread (\d+):\s*$", ln)
        if m:
            last_thread = m.group(1)
            continue
        h = cur.get(last_thread)
        if h is None:
            continue
        r = res[h]
        m = re.search(r"\*\* (\d+) of (\d+) failed", ln)
        if m:
            r["failed"], r["checks"] = int(m.group(1)), int(m.group(2))
        m = re.search(r"\*\* (\d+) of (\d+) cover properties satisfied", ln)
        if m:
            r["cover_sat"], r["cover_total"] = int(m.group(1)), int(m.group(2))
        m = re.match(r"Failed Checks: (.*)", ln)
        if m:
            r["failed_checks"].append(m.group(1)[:200])
        m = re.match(r"VERIFICATION:- (\w+)", ln)
        if m:
            r["status"] = m.group(1)
        m = re.match(r"Verification Time: ([\d.]+)s", ln)
        if m:
            r["time"] = float(m.group(1))
    return res


def playback_values(output):
    import kanirun
    return kanirun.playback_values(output)


def le(b):
    return sum(x << (8 * i) for i, x in enumerate(b))


def decode_counterexample(h, vals):
    """rebuild the circuit value and inputs from the sequence of kani::any() results"""
    name, kind, shape, n, outs, unwind, tier = h
    it = iter(vals)
    if kind == "ssa":
        gates = []
        for _ in range(n):
            k, a, b = le(next(it)), le(next(it)), le(next(it))
            gates.append(("x", a, b) if k % 3 == 0 else (("a", a, b) if k % 3 == 1 else ("n", a, -1)))
        outputs = [le(next(it)) for _ in range(outs)]
        inputs = [[le(next(it)) & 1 for _ in range(s)] for s in shape]
        gs = ",".join(("n%d" % a) if t == "n" else "%s%d.%d" % (t, a, b) for t, a, b in gates)
        text = "i:%s|g:%s|o:%s" % (",".join(map(str, shape)), gs, ",".join(map(str, outputs)))
        return {"kind": "ssa", "circuit": text, "inputs": inputs}
    max_reg = le(next(it))
    insts = []
    for _ in range(n):
        k, out, a, b = le(next(it)), le(next(it)), le(next(it)), le(next(it))
        if k % 4 == 0:
            insts.append("x%d.%d.%d" % (out, a, b))
        elif k % 4 == 1:
            insts.append("a%d.%d.%d" % (out, a, b))
        elif k % 4 == 2:
            insts.append("n%d.%d" % (out, a))
        else:
            party, inp = le(next(it)), le(next(it))
            insts.append("I%d.%d.%d" % (out, party, inp))
    outputs = [le(next(it)) for _ in range(outs)]
    and_ops = le(next(it))
    inputs = [[le(next(it)) & 1 for _ in range(s)] for s in shape]
    text = "i:%s|r:%d|n:%d|p:%s|o:%s" % (",".join(map(str, shape)), max_reg, and_ops % (1 << 32), ",".join(insts), ",".join(map(str, outputs)))
    return {"kind": "reg", "circuit": text, "inputs": inputs, "max_reg": max_reg}


def native_replay(d, cex):
    """-> (reproduced, description)"""
    if cex["kind"] == "ssa":
        v = d.req("validate", cex["circuit"])
        if v[0] == "panic":
            return True, "validate() itself panics: %s" % drvmod.unhx(v[1])
        if v[0] != "ok" or v[1] != "valid":
            return False, "real validate() rejects the circuit: %s" % v
        r = d.evalc(cex["circuit"], cex["inputs"])
        if isinstance(r, tuple):
            return True, "validate() accepts, eval() on inputs of the declared shape: %s %s" % r
        n_out = len([x for x in cex["circuit"].split("|o:")[1].split(",") if x])
        if len(r) != n_out:
            return True, "eval returned %d bits for %d outputs" % (len(r), n_out)
        return False, "eval succeeded"
    v = d.req("validater", cex["circuit"])
    if v[0] == "panic":
        return True, "validate() itself panics: %s" % drvmod.unhx(v[1])
    if v[0] != "ok" or v[1] != "valid":
        return False, "real validate() rejects the circuit: %s" % v
    r = d.evalr(cex["circuit"], cex["inputs"])
    if isinstance(r, tuple):
        return True, "validate() accepts, eval() on inputs of the declared shape: %s %s" % r
    # definedness (no panic natively: the register file is zero-initialised)
    rc = drvmod.RegCircuit.parse(cex["circuit"])
    written = set()
    for idx, inst in enumerate(rc.insts):
        if inst[0] != "I":
            for x in inst[2:]:
                if x not in written:
                    return True, "validate() accepts, but instruction %d reads register %d before any write" % (idx, x)
        else:
            if inst[2] >= len(rc.inputs) or inst[3] >= rc.inputs[inst[2]]:
                return True, "validate() accepts an input instruction for a non-existing input"
        written.add(inst[1])
    for x in rc.outputs:
        if x not in written:
            return True, "validate() accepts, but output register %d is never written" % x
    return False, "eval succeeded and every register was defined"


def run(ctx):
    tier = ctx["tier"]
    t0 = time.time()
    table = [h for h in harness_table.HARNESSES if tier == "thorough" or h[6] == "quick"]
    # keep the generated harness file in sync with the table
    gen = os.path.join(KANI_DIR, "src", "c16_harnesses.rs")
    if not os.path.exists(gen) or open(gen).read() != harness_table.rust():
        open(gen, "w").write(harness_table.rust())
    shutil.copy("/repo/Cargo.lock", os.path.join(KANI_DIR, "Cargo.lock")) if False else None
    target = os.path.join(VERIF, "build", "kani-target")
    args = ["-j", str(min(ctx.get("jobs", 12), 12))]
    for h in table:
        args += ["--harness", h[0]]
    code, output = kani(args, target, timeout=3000 if tier == "quick" else 7200)
    res = parse(output)
    errors, violations, samples = [], [], []
    d = None
    total_checks = 0
    nonvac = 0
    import kanirun
    failing = [h[0] for h in table if res.get(h[0], {}).get("status") == "FAILED"]
    cexs = kanirun.playback_many(failing, [], jobs=ctx.get("jobs", 8)) if failing else {}
    for h in table:
        name = h[0]
        r = res.get(name)
        if r is None or r["status"] not in ("SUCCESSFUL", "FAILED"):
            errors.append("harness %s: no verdict (%s)" % (name, (r or {}).get("status")))
            continue
        total_checks += r.get("checks", 0)
        vac_expected = sum(h[2]) == 0 or (h[1] == "reg" and h[3] == 0)
        if r.get("cover_sat", 0) >= 1:
            nonvac += 1
        elif not vac_expected and r["status"] == "SUCCESSFUL":
            errors.append("harness %s is vacuous: no circuit of this shape passes validation" % name)
        samples.append({"harness": name, "kind": h[1], "party_sizes": h[2], "gates_or_insts": h[3], "outputs": h[4], "unwind": h[5],
                        "status": r["status"], "checks": r.get("checks"), "cover_satisfied": r.get("cover_sat"), "seconds": r.get("time")})
        if r["status"] == "FAILED":
            # the concrete counterexample is rebuilt from the printed kani::any() values and replayed natively
            vals = cexs.get(name, [])
            try:
                cex = decode_counterexample(h, vals)
            except StopIteration:
                errors.append("harness %s FAILED (%s) but the counterexample could not be decoded" % (name, r["failed_checks"][:2]))
                continue
            if d is None:
                d = drvmod.Driver()
            ok, desc = native_replay(d, cex)
            if ok:
                violations.append({"key": "validate-%s-unsafe" % h[1], "text": "%s circuit %s passes validate() but: %s (Kani: %s)" % (h[1], cex["circuit"], desc, r["failed_checks"][:2]),
                                   "replay": {"harness": name, **cex, "kani_failed_checks": r["failed_checks"], "native": desc}})
            else:
                errors.append("harness %s FAILED (%s) but the counterexample does not reproduce natively: %s / %s" % (name, r["failed_checks"][:2], cex["circuit"], desc))
    # validation accepts every circuit produced by the compiler and by the conversion (concrete verdicts of the real validate)
    if d is None:
        d = drvmod.Driver()
    accepted = 0
    for i in range(40 if tier == "quick" else 300):
        prog = common.make_program("general", ctx["seed"] * 100000 + 7000000 + i)
        src = render(prog)
        for dedup in (True, False):
            r = d.compile(src, dedup=dedup)
            if r[0] != "ok":
                continue
            if r[3] != "valid":
                violations.append({"key": "compiler-output-invalid", "text": "validate() rejects a compiler output: %s" % r[3], "replay": {"source": src, "dedup": dedup}})
            rr = d.toreg(r[1])
            if rr[0] == "ok" and rr[2] != "valid":
                violations.append({"key": "converter-output-invalid", "text": "register validate() rejects a converter output: %s" % rr[2], "replay": {"source": src, "dedup": dedup}})
            accepted += 1
            d.drop(r[1])
    d.close()
    if code not in (0, 1) and not res:
        errors.append("cargo kani failed (exit %d): %s" % (code, output[-600:]))
    cov = {"evaluations": len(table), "distinct_nontrivial": nonvac,
           "rule": "one Kani proof harness per (circuit kind, concrete shape); non-trivial = its kani::cover! witness (some circuit of that shape passes validation) is satisfiable",
           "samples": samples, "cbmc_checks_total": total_checks, "compiler_and_converter_outputs_validated": accepted,
           "explanation": "The real Circuit::validate/eval and register_circuit::Circuit::validate/eval are compiled by Kani. Symbolic: every gate kind and operand (any usize), every output index, every instruction's out / operand registers (any u32), "
                          "Input{party, input} (any u32), max_reg_count <= 4, and_ops, all input bits. Concrete: the shape (party sizes, number of gates / instructions / outputs). Assertion: validate().is_ok() => eval on inputs of the declared shape reaches no panic / "
                          "out-of-bounds / unwrap-on-None and returns one bit per output; register form: a shadow written-set shows no register is read or output before it is written and every input instruction names an existing input. "
                          "Unwinding assertions are on. A FAILED harness is re-run with --concrete-playback=print, the circuit is rebuilt from the printed values and replayed through the real validate/eval natively before it is reported.",
           "bounds": "shapes: " + "; ".join("%s %s/%d/%d" % (h[1], h[2], h[3], h[4]) for h in table),
           "functions_encoded": ["circuit::Circuit::validate", "circuit::Circuit::eval", "register_circuit::Circuit::validate", "register_circuit::Circuit::eval"],
           "solver": {"backend": "CBMC 6.11 (cadical) via Kani 0.68", "wall_seconds": round(time.time() - t0, 1)}}
    return {"violations": violations, "errors": errors, "inconclusive": 0, "inconclusive_limit": 0, "coverage": cov, "level": "model_checking",
            "assumptions": ["circuit shapes are concrete and bounded (symbolic Vec lengths do not get through CBMC here)", "max_reg_count <= 4", "allocation failure is not modelled (Kani)",
                            "inputs have the declared number of parties and bits per party (the documented precondition of eval)"],
            "headline": "%d harnesses (%d non-vacuous), %d CBMC checks, %d compiler/converter outputs validated" % (len(table), nonvac, total_checks, accepted)}
