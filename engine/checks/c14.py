"""C14 -- no shared mutable state: copies are independent, control flow merges variables right."""
import common


def plan(ctx):
    seed, tier = ctx["seed"], ctx["tier"]
    items = []
    if tier == "quick":
        pools = [("mutation", 1200), ("assignorder", 400)]
        cap = 20.0
    else:
        pools = [("mutation", 6000), ("widemutation", 2000), ("assignorder", 1000)]
        cap = 120.0
    for profile, n in pools:
        for i in range(n):
            items.append({"profile": profile, "seed": seed * 100000 + 40000 + i, "queries": ("value",),
                          "dedups": (True,), "cap": cap, "reg": False, "vectors": 3})
    return items


def work(item, drv):
    return common.tv_item(item, drv)


def summarize(ctx, items, results):
    what = ("Mutation-heavy generated programs (let mut, plain and compound assignment through nested array/tuple/struct accessors "
            "with constant and input-dependent indices, copies of aggregates followed by mutation of one copy, mutation inside nested "
            "blocks / branches / match arms / loops, `mut` parameters mutated in callees, shadowing in nested scopes and loop bodies, by pattern variables "
            "of let / for / for-join / match arms and by blocks whose only statement is a binding; profile `assignorder`: nested arrays assigned through "
            "input-dependent indices, a later index expression assigning to a variable used as an earlier index). "
            "Every live variable of main is returned in a tuple, so a wrong merge or an aliased copy of ANY variable changes the output. "
            "Query per program: an argument tuple on which the by-value reference does not panic and the circuit's output differs -- unsat. "
            "disagreements_checked = solver queries discharged.")
    return common.summarize_tv(ctx, items, results, "C14", what, common.BASE_ASSUMPTIONS + [
        "bounds: depth <= 3, <= 6 statements per block, arrays <= 3 elements, <= 6 returned variables; per-query cap 20 s / 120 s",
    ])
