"""C13 -- join / join_iter compute exactly the sorted-merge join and hide match positions."""
import itertools, random
import z3
import common, enc, ref, solve, tvcore
from lang import *
from drv import Circuit


def plan(ctx):
    tier, seed = ctx["tier"], ctx["seed"]
    items = []
    maxsum = 7 if tier == "quick" else 10
    pairs = [(n, m) for n in range(1, maxsum) for m in range(1, maxsum) if n + m <= maxsum]
    keys = ["u8", "u16"] if tier == "quick" else ["u8", "u16", "u32", "(u8, u8)"]
    k = 0
    for (n, m) in pairs:
        for key in keys:
            for variant in range(2 if tier == "quick" else 4):
                items.append({"kind": "forjoin", "n": n, "m": m, "key": key, "seed": seed * 1000 + k, "cap": 60.0 if tier == "quick" else 240.0})
                k += 1
            if not key.startswith("("):
                # (arrays of tuples are always joined on their first component, so a tuple key has no payload-free form)
                items.append({"kind": "join", "n": n, "m": m, "key": key, "assoc": False, "strict": True, "cap": 60.0 if tier == "quick" else 240.0})
                items.append({"kind": "join", "n": n, "m": m, "key": key, "assoc": False, "strict": False, "cap": 60.0 if tier == "quick" else 240.0})
            items.append({"kind": "join", "n": n, "m": m, "key": key, "assoc": True, "strict": True, "cap": 60.0 if tier == "quick" else 240.0})
            if not key.startswith("(") and (key == "u8" or tier == "thorough"):
                # arrays that are (partly) compile-time constants: the builder folds the merge / sorting network on constant wires
                for const in ("ab", "ab", "ab", "a", "b", "mix", "mix"):
                    k += 1
                    items.append({"kind": "join", "n": n, "m": m, "key": key, "assoc": k % 2 == 0, "strict": True, "const": const, "seed": seed * 1000 + k,
                                  "cap": 60.0 if tier == "quick" else 240.0})
                for const in ("ab", "mix"):
                    k += 1
                    items.append({"kind": "forjoin", "n": n, "m": m, "key": key, "const": const, "seed": seed * 1000 + k, "cap": 60.0 if tier == "quick" else 240.0})
    for n in range(1, 7 if tier == "quick" else 9):
        for bits, ebits in ((1, 1), (2, 2), (1, 3), (2, 3)) if tier == "quick" else ((1, 1), (2, 2), (3, 3), (1, 3), (2, 4)):
            items.append({"kind": "sorter", "n": n, "bits": bits, "ebits": ebits, "cap": 60.0})
    return items


def key_type(name):
    return {"u8": U8, "u16": U16, "u32": U32, "(u8, u8)": TTup([U8, U8])}[name]


def key_bv(kty, v):
    return ref.encode(kty, v)


def sorted_assume(kty, arr, key_of, strict):
    cs = []
    for x, y in zip(arr, arr[1:]):
        a, b = key_bv(kty, key_of(x)), key_bv(kty, key_of(y))
        cs.append(z3.ULT(a, b) if strict else z3.ULE(a, b))
    return cs


def const_elems(rng, mode, which, ty, kty, n, total):
    """which elements of array `which` ('a' / 'b') are literals: -> list of None | (Lit expr, z3 value).
    Keys are drawn strictly ascending from a small range so that the two arrays share some of them."""
    if mode is None or (mode in ("a", "b") and mode != which):
        return [None] * n
    keys = sorted(rng.sample(range(0, total + 2), n))
    if mode == "mix":
        keys = [3 * k + 1 for k in keys]  # room for symbolic elements below, between and above the constants
    out = []
    for i in range(n):
        if mode == "mix" and rng.random() < 0.5:
            out.append(None)
            continue
        if isinstance(ty, TTup):
            es, vs = [], []
            for j, t in enumerate(ty.elems):
                v = keys[i] if j == 0 else (rng.random() < 0.5 if isinstance(t, TBool) else rng.choice([0, 0, 1, 7, t.max]))
                es.append(Lit(t, v))
                vs.append(z3.BoolVal(v) if isinstance(t, TBool) else z3.BitVecVal(v, t.bits))
            out.append((TupLit(es), vs))
        else:
            out.append((Lit(ty, keys[i]), z3.BitVecVal(keys[i], ty.bits)))
    return out


def const_array(name, param, consts):
    """-> (statements, array expression) : `let c<name> = [lit | param[i], ...];` or the parameter itself"""
    if all(c is None for c in consts):
        return [], param
    elems = [c[0] if c is not None else Index(param, Lit(USIZE, i)) for i, c in enumerate(consts)]
    v = Var("c" + name, param.ty)
    return [Let(PVar(v.name), ArrLit(elems))], v


def substitute(arr, consts):
    return [c[1] if c is not None else x for x, c in zip(arr, consts)]


# ---------------------------------------------------------------- for-join loops
def forjoin_program(item):
    rng = random.Random(item["seed"])
    kty = key_type(item["key"])
    pa = rng.choice([[U8], [U16], [U8, BOOL]])
    pb = rng.choice([[U8], [U16, U8], [I8]])
    ta, tb = TTup([kty] + pa), TTup([kty] + pb)
    n, m = item["n"], item["m"]
    a, b = Var("a", TArr(ta, n)), Var("b", TArr(tb, m))
    stmts = [LetMut("acc", Lit(U16, 0)), LetMut("cnt", Lit(U8, 0)), LetMut("last", Lit(U16, 0)), LetMut("sum", Lit(U8, 0))]
    pva = [PVar("ka")] + [PVar("p%d" % i) for i in range(len(pa))]
    pvb = [PVar("kb")] + [PVar("q%d" % i) for i in range(len(pb))]
    pat = PTup([PTup(pva), PTup(pvb)]) if rng.random() < 0.7 else PVar("row")
    if isinstance(pat, PVar):
        row = Var("row", TTup([ta, tb]))
        geta = lambda i: TupGet(TupGet(row, 0), i)
        getb = lambda i: TupGet(TupGet(row, 1), i)
    else:
        geta = lambda i: Var(pva[i].name, ta.elems[i])
        getb = lambda i: Var(pvb[i].name, tb.elems[i])
    acc, cnt, last, sm = Var("acc", U16), Var("cnt", U8), Var("last", U16), Var("sum", U8)
    p0 = geta(1)
    q0 = getb(1)
    body = []
    # order-sensitive accumulation (wrong order or a spurious/missing iteration changes the result)
    body.append(Assign("acc", U16, [], Bin("^", Bin("<<", acc, Lit(U8, 1)), Cast(p0, U16))))
    body.append(Assign("cnt", U8, [], Lit(U8, 1), "+"))
    keyexpr = geta(0) if isinstance(kty, TInt) else TupGet(geta(0), 1)
    body.append(Assign("last", U16, [], Cast(keyexpr, U16)))
    # a checked addition: panics only if a JOINED pair overflows it, at this location
    body.append(Assign("sum", U8, [], Cast(q0, U8), "+"))
    if rng.random() < 0.5:
        body.append(ExprStmt(If(Bin(">", Cast(q0, U16), Cast(p0, U16)), Block([Assign("acc", U16, [], Lit(U16, 1), "^")], None), None)))
    rng.shuffle(body)
    ca = const_elems(rng, item.get("const"), "a", ta, kty, n, n + m)
    cb = const_elems(rng, item.get("const"), "b", tb, kty, m, n + m)
    sa, ea = const_array("a", a, ca)
    sb, eb = const_array("b", b, cb)
    stmts += sa + sb
    stmts.append(ForJoin(pat, ea, eb, body))
    ret = TupLit([acc, cnt, last, sm])
    prog = Program([FnDef("main", [("a", a.ty, False), ("b", b.ty, False)], ret.ty, Block(stmts, ret), pub=True)])
    return prog, kty, ca, cb


def work_forjoin(item, drv, st, out):
    prog, kty, ca, cb = forjoin_program(item)
    rng = random.Random(item["seed"])

    def extra(args):
        return sorted_assume(kty, substitute(args[0], ca), lambda x: x[0], True) + sorted_assume(kty, substitute(args[1], cb), lambda x: x[0], True)
    res = tvcore.analyze(drv, prog, dedup=True, cap=item["cap"], stats=st, rng=rng, vectors=2, extra_assume=extra)
    out["programs"] += 1
    label = "for-join n=%d m=%d key=%s%s" % (item["n"], item["m"], item["key"], " const=%s" % item["const"] if item.get("const") else "")
    if res["status"] != "ok":
        out["violations"].append({"key": "forjoin-%s" % res["status"], "text": "%s: %s %s" % (label, res["status"], res.get("errors") or res.get("panic") or [f.as_dict() for f in res["findings"]]),
                                  "replay": {"source": res["src"]}})
        return
    out["gates"] += res["gates"]
    for f in res["findings"]:
        d = f.as_dict()
        if f.kind == "disagreement":
            out["violations"].append({"key": "forjoin-%s" % d["query"], "text": "%s: loop effects differ from the sorted-merge join (%s query) on inputs %s" % (label, d["query"], d["inputs"]),
                                      "replay": {"source": res["src"], **d}})
        else:
            out["nonrepro"].append(d)
    if not out["samples"]:
        out["samples"].append({"kind": "for-join", "n": item["n"], "m": item["m"], "key": item["key"], "gates": res["gates"], "verdicts": res["verdicts"], "source": res["src"]})


# ---------------------------------------------------------------- join built-in
def join_program(item):
    kty = key_type(item["key"])
    n, m = item["n"], item["m"]
    if item["assoc"]:
        ta, tb = TTup([kty, U8]), TTup([kty, U8, BOOL])
        ety = TTup([BOOL, ta, tb])
    else:
        ta = tb = kty
        ety = TTup([BOOL, kty])
    L = n + m - 1
    rty = TArrC(ety, L, "const { %dusize + %dusize - 1usize }" % (n, m))
    a, b = Var("a", TArr(ta, n)), Var("b", TArr(tb, m))
    rng = random.Random(item.get("seed", 0))
    ca = const_elems(rng, item.get("const"), "a", ta, kty, n, n + m)
    cb = const_elems(rng, item.get("const"), "b", tb, kty, m, n + m)
    sa, ea = const_array("a", a, ca)
    sb, eb = const_array("b", b, cb)
    e = JoinCall(ea, eb, rty)
    prog = Program([FnDef("main", [("a", a.ty, False), ("b", b.ty, False)], rty, Block(sa + sb, e), pub=True)])
    return prog, kty, ta, tb, ety, L, ca, cb


def join_spec(item, kty, ta, tb, ety, a, b, out_elems):
    """-> list of named spec formulas that must all hold"""
    assoc = item["assoc"]
    ka = [x[0] if assoc else x for x in a]
    kb = [y[0] if assoc else y for y in b]
    flags = [o[0] for o in out_elems]
    spec = []
    # unflagged entries are all zero
    for k, o in enumerate(out_elems):
        bits = ref.encode(ety, o)
        spec.append(("unflagged entry %d is all zero" % k, z3.Implies(z3.Not(flags[k]), bits == z3.BitVecVal(0, bits.size()))))
    # flags are sorted (unflagged first), so positions reveal only the number of matches
    for k in range(len(flags) - 1):
        spec.append(("flags sorted at %d" % k, z3.Implies(flags[k], flags[k + 1])))
    eqk = lambda x, y: ref.sem_eq(kty, x, y)
    # every flagged entry is a matching element (pair)
    for k, o in enumerate(out_elems):
        if assoc:
            alts = [z3.And(eqk(ka[i], kb[j]), ref.sem_eq(ta, o[1], a[i]), ref.sem_eq(tb, o[2], b[j])) for i in range(len(a)) for j in range(len(b))]
        else:
            alts = [z3.And(eqk(ka[i], kb[j]), ref.sem_eq(kty, o[1], a[i])) for i in range(len(a)) for j in range(len(b))]
        spec.append(("flagged entry %d is a matching element" % k, z3.Implies(flags[k], z3.Or(*alts))))
    # no key is flagged twice
    okey = [(o[1][0] if assoc else o[1]) for o in out_elems]
    for k in range(len(out_elems)):
        for l in range(k + 1, len(out_elems)):
            spec.append(("entries %d and %d do not carry the same key" % (k, l), z3.Implies(z3.And(flags[k], flags[l]), z3.Not(eqk(okey[k], okey[l])))))
    # every common key is present
    for i in range(len(a)):
        common = z3.Or(*[eqk(ka[i], kb[j]) for j in range(len(b))])
        present = z3.Or(*[z3.And(flags[k], eqk(okey[k], ka[i])) for k in range(len(out_elems))])
        spec.append(("common key of a[%d] is reported" % i, z3.Implies(common, present)))
    return spec


def work_join(item, drv, st, out):
    prog, kty, ta, tb, ety, L, ca, cb = join_program(item)
    src = render(prog)
    label = "join n=%d m=%d key=%s assoc=%s strict=%s%s" % (item["n"], item["m"], item["key"], item["assoc"], item["strict"], " const=%s" % item["const"] if item.get("const") else "")
    r = drv.compile(src, dedup=True)
    out["programs"] += 1
    rep = {"source": src, "label": label}
    if r[0] != "ok":
        out["violations"].append({"key": "join-%s" % r[0], "text": "%s: %s" % (label, str(r[1:3])[:300]), "replay": rep})
        return
    cid, circ, validity = r[1], r[2], r[3]
    try:
        exp_in = ref.expected_party_sizes(prog, "main")
        exp_out = enc.PANIC_BITS + size_of(ety) * L
        if validity != "valid" or list(circ.inputs) != exp_in or len(circ.outputs) != exp_out:
            out["violations"].append({"key": "join-shape", "text": "%s: circuit shape %s/%d outputs (%s), expected %s/%d" % (label, circ.inputs, len(circ.outputs), validity, exp_in, exp_out), "replay": rep})
            return
        inputs = enc.Inputs(circ.inputs)
        outs = enc.encode_ssa(circ, inputs)
        tvcore.validate_encoder(drv, cid, circ, inputs, outs, random.Random(1), 2)
        has, rec, vbits = enc.split_panic(outs)
        args, assume = ref.param_values(prog, "main", inputs.bv)
        a, b = substitute(args[0], ca), substitute(args[1], cb)
        key_of = (lambda x: x[0]) if item["assoc"] else (lambda x: x)
        assume = assume + sorted_assume(kty, a, key_of, item["strict"]) + sorted_assume(kty, b, key_of, item["strict"])
        out_val = ref.decode(TArr(ety, L), enc.bits_to_bv(vbits))
        spec = join_spec(item, kty, ta, tb, ety, a, b, out_val)
        spec.append(("no panic", z3.Not(has)))
        out["gates"] += len(circ.gates)
        # precondition must be satisfiable (vacuity guard)
        v0, _, _, _ = solve.decide(assume, 20.0, st)
        if v0 != "sat":
            if item.get("const") == "mix":
                return  # no symbolic element fits between the chosen constants: nothing to check for this draw
            out["errors"].append("join precondition unsatisfiable?! %s" % label)
        bad = z3.Or(*[z3.Not(f) for _, f in spec])
        verdict, model, _, _ = solve.decide(assume + [bad], item["cap"], st)
        if verdict == "sat":
            parties = inputs.party_values(model)
            real = drv.eval(cid, parties)
            pairs = tvcore.input_pairs(inputs, parties)
            # evaluate the spec on the REAL output bits
            realv = 0
            for bit in real[enc.PANIC_BITS:]:
                realv = (realv << 1) | bit
            real_out = ref.decode(TArr(ety, L), z3.BitVecVal(realv, len(vbits)))
            spec_real = join_spec(item, kty, ta, tb, ety, a, b, real_out)
            failed = [name for name, f in spec_real if not tvcore.concrete(f, pairs)]
            if real[0]:
                failed.append("no panic")
            det = {**rep, "inputs": tvcore.bits_str(parties), "output_bits": "".join(map(str, real[enc.PANIC_BITS:])), "violated": failed}
            if failed:
                out["violations"].append({"key": "join-spec", "text": "%s: on sorted inputs %s the result violates: %s" % (label, det["inputs"], failed[:4]), "replay": det})
            else:
                out["nonrepro"].append(det)
        if len(out["samples"]) < 1:
            out["samples"].append({"kind": "join", "label": label, "gates": len(circ.gates), "spec_clauses": len(spec), "verdict": verdict, "source": src})
    finally:
        drv.drop(cid)


# ---------------------------------------------------------------- sorting networks through the hook
def work_sorter(item, drv, st, out):
    n, bits, ebits = item["n"], item["bits"], item["ebits"]
    r = drv.req("sorter", "sort", bits, ebits, n, 1)
    out["programs"] += 1
    if r[0] != "ok":
        out["violations"].append({"key": "sorter-%s" % r[0], "text": "push_bitonic_sorter n=%d: %s" % (n, r[:2]), "replay": {"item": item}})
        return
    circ = Circuit.parse(r[1])
    inputs = enc.Inputs(circ.inputs)
    outs = enc.encode_ssa(circ, inputs)[enc.PANIC_BITS:]
    elems_in = [inputs.bv[i] for i in range(n)]
    elems_out = [enc.bits_to_bv(outs[i * ebits:(i + 1) * ebits]) for i in range(n)]
    key = lambda e: z3.Extract(ebits - 1, ebits - bits, e)
    cs = []
    for x, y in zip(elems_out, elems_out[1:]):
        cs.append(z3.ULE(key(x), key(y)))
    # permutation: every element value occurs equally often on both sides
    for v in range(1 << ebits):
        cin = z3.Sum([z3.If(e == v, 1, 0) for e in elems_in])
        cout = z3.Sum([z3.If(e == v, 1, 0) for e in elems_out])
        cs.append(cin == cout)
    verdict, model, _, _ = solve.decide([z3.Not(z3.And(*cs))], item["cap"], st)
    if verdict == "sat":
        parties = inputs.party_values(model)
        real = drv.evalc(r[1], parties)
        vals_in = [int("".join(map(str, p)), 2) for p in parties]
        ob = real[enc.PANIC_BITS:]
        vals_out = [int("".join(map(str, ob[i * ebits:(i + 1) * ebits])), 2) for i in range(n)]
        keys = [v >> (ebits - bits) for v in vals_out]
        det = {"item": item, "inputs": vals_in, "outputs": vals_out}
        if keys != sorted(keys) or sorted(vals_in) != sorted(vals_out):
            out["violations"].append({"key": "sorter-spec", "text": "push_bitonic_sorter(bits=%d) on %s gives %s: not sorted by key or not a permutation" % (bits, vals_in, vals_out), "replay": det})
        else:
            out["nonrepro"].append(det)
    if not out["samples"]:
        out["samples"].append({"kind": "bitonic sorter via hook", "n": n, "key_bits": bits, "element_bits": ebits, "gates": len(circ.gates), "verdict": verdict})


def work(item, drv):
    st = solve.Stats()
    out = {"item": item, "violations": [], "nonrepro": [], "programs": 0, "gates": 0, "samples": [], "errors": []}
    if item["kind"] == "forjoin":
        work_forjoin(item, drv, st, out)
    elif item["kind"] == "join":
        work_join(item, drv, st, out)
    else:
        work_sorter(item, drv, st, out)
    out["stats"] = st.as_dict()
    return out


def summarize(ctx, items, results):
    st = solve.Stats()
    viol, errors, samples = [], [], []
    programs = gates = 0
    kinds = {}
    for r in results:
        if "error" in r:
            errors.append("worker failure on %s: %s %s" % (str(r["item"])[:100], r["error"], r.get("trace", "")[-600:]))
            continue
        sd = r["stats"]
        st.queries += sd["queries"]; st.unsat += sd["unsat"]; st.sat += sd["sat"]; st.unknown += sd["inconclusive"]; st.z3_s += sd["z3_seconds"]; st.kissat_s += sd["kissat_seconds"]; st.kissat_runs += sd["kissat_runs"]
        viol += r["violations"]
        errors += r["errors"]
        programs += r["programs"]; gates += r["gates"]
        kinds[r["item"]["kind"]] = kinds.get(r["item"]["kind"], 0) + 1
        for d in r["nonrepro"]:
            errors.append("counterexample did not reproduce natively: %s" % str(d)[:300])
        if r["samples"] and sum(1 for s in samples if s.get("kind") == r["samples"][0].get("kind")) < 2:
            samples += r["samples"][:1]
    tier = ctx["tier"]
    cov = {"programs": programs, "disagreements_checked": st.queries, "samples": samples,
           "explanation": "ALL element values of both arrays are symbolic under the documented precondition (sorted strictly ascending by the unsigned key; for `join` without payload also non-strictly), asserted as a formula. "
                          "for-join: the loop's effects (order-sensitive accumulator, counter, last key, a checked addition that can overflow) and panic record must equal a nested-loop reference that runs the body once per "
                          "pair with equal keys in ascending order. join(): length n+m-1; unflagged entries all zero; flags sorted; every flagged entry a matching element (pair); no key flagged twice; every common key reported; no panic. "
                          "Sorting networks via the hook: output sorted by key and a permutation of the input for all inputs.",
           "work_items": kinds, "gates_encoded": gates, "solver": st.as_dict(),
           "bounds": {"size_pairs": "all (n, m) with n, m >= 1 and n + m <= %d" % (6 if tier == "quick" else 8), "keys": "u8, u16" + ("" if tier == "quick" else ", u32, (u8, u8)"),
                      "sorter": "n <= %d elements of <= 3-4 bits" % (6 if tier == "quick" else 8)},
           "functions_encoded": ["compile.rs compile_bitonic_merge / JoinLoop / join built-in", "circuit.rs push_bitonic_merger / push_bitonic_sorter / push_sorter / push_gt_circuit / push_condswap"]}
    return {"violations": viol, "errors": errors, "inconclusive": st.unknown, "inconclusive_limit": max(3, st.queries // 10), "coverage": cov,
            "level": "translation_validation",
            "assumptions": ["join arrays satisfy the documented sortedness precondition", "size pairs and element shapes are enumerated; element values are symbolic"] + common.BASE_ASSUMPTIONS[:2],
            "headline": "%d join programs / networks, %d queries (%d unsat, %d sat, %d undecided)" % (programs, st.queries, st.unsat, st.sat, st.unknown)}
