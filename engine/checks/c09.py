"""C09 -- literal encoding matches the documented layout and the type test is exact (scoped: primitive types and
ranges by Kani over the real Literal::{is_of_type, as_bits, from_unwrapped_bits}; aggregate layout by TV identity programs)."""
import os, sys, time, random
import z3
import common, drv as drvmod, enc, ref, solve, tvcore, kanirun
from lang import *

sys.path.insert(0, kanirun.KANI_DIR)
import harness_table  # noqa: E402

E1 = TEnum("Color", [("Red", []), ("Rgb", [U8, U8, U8]), ("Gray", [U16])])
S1 = TStruct("Pt", [("x", I16), ("y", U8)])
ID_TYPES = [BOOL, U8, I8, U16, I16, U32, I32, U64, I64, USIZE, TArr(U8, 3), TArr(TArr(BOOL, 2), 2), TTup([BOOL, U16, I8]), TTup([TArr(U8, 2), TTup([I16, BOOL])]),
            S1, TArr(S1, 2), E1, TTup([E1, BOOL]), TArr(E1, 2), TStruct("W", [("c", E1), ("p", S1)])]


def identity_program(ty):
    structs, enums = [], []
    import c08
    c08.defs_for(ty, structs, enums)
    return Program([FnDef("main", [("x", ty, False), ("k", BOOL, False)], ty, Block([], Var("x", ty)), pub=True)], structs, enums)


def int_ty(name):
    for t in INT_TYPES:
        if t.name == name:
            return t


def native_replay(d, name, vals):
    """-> (reproduced, description)"""
    kind, _, tyname = name.partition("_")
    if kind == "enc" and tyname != "bool":
        t = int_ty(tyname)
        n = kanirun.le(vals[0])
        if t.signed:
            if n >= 1 << 63:
                n -= 1 << 64
            r = d.req("lit", "s", n, tyname, tyname)
        else:
            r = d.req("lit", "u", n, tyname, tyname)
        if r[0] == "panic":
            return True, "type test / encoding of %d as %s panics: %s" % (n, tyname, drvmod.unhx(r[1]))
        if r[0] != "ok":
            return False, str(r)
        accepted = r[1] == "1"
        if accepted and not (t.min <= n <= t.max):
            return True, "is_of_type accepts %d as %s (encoded as %s)" % (n, tyname, r[2])
        if accepted:
            want = format(n & ((1 << t.bits) - 1), "0%db" % t.bits)
            if r[2] != want:
                return True, "as_bits(%d: %s) = %s, documented layout %s" % (n, tyname, r[2], want)
        return False, "accepted=%s bits=%s" % (accepted, r[2])
    if kind == "range":
        mn, mx = kanirun.le(vals[0]), kanirun.le(vals[1])
        size = {"u8": 2, "u16": 3, "u32": 2, "u64": 3, "usize": 1}[tyname]
        t = int_ty(tyname)
        r = d.req("lit", "r", mn, mx, tyname, size)
        if r[0] == "panic":
            return True, "type test of Range(%d, %d, %s) against [%s; %d] panics: %s" % (mn, mx, tyname, tyname, size, drvmod.unhx(r[1]))
        if r[0] == "ok" and r[1] == "1" and not (mn <= mx and mx - mn == size and mx - 1 <= t.max):
            return True, "is_of_type accepts Range(%d, %d, %s) as [%s; %d]" % (mn, mx, tyname, tyname, size)
        return False, str(r)
    if kind == "dec" and tyname != "bool":
        t = int_ty(tyname)
        bits = "".join(str(kanirun.le(v) & 1) for v in vals[:t.bits])
        r = d.req("dec", tyname, bits)
        v = int(bits, 2)
        if t.signed and v >= 1 << (t.bits - 1):
            v -= 1 << t.bits
        if r[0] != "ok" or drvmod.unhx(r[1]) != str(v):
            return True, "from_unwrapped_bits(%s, %s) = %s, documented layout gives %d" % (tyname, bits, r, v)
        return False, str(r)
    return False, "no native replay for %s" % name


def run(ctx):
    tier = ctx["tier"]
    t0 = time.time()
    names = [n for n, t in harness_table.C09 if tier == "thorough" or t == "quick"]
    for fn, body in (("c16_harnesses.rs", harness_table.rust()), ("c09_harnesses.rs", harness_table.rust_c09())):
        p = os.path.join(kanirun.KANI_DIR, "src", fn)
        if not os.path.exists(p) or open(p).read() != body:
            open(p, "w").write(body)
    args = ["-Z", "stubbing", "-Z", "unstable-options", "--harness-timeout", "300s", "-j", str(min(ctx.get("jobs", 12), 12))]
    for n in names:
        args += ["--harness", n]
    code, output = kanirun.kani(args, timeout=3600)
    res = kanirun.parse(output)
    errors, violations, samples = [], [], []
    total_checks = 0
    ok = 0
    d = drvmod.Driver()
    failing = [n for n in names if res.get(n, {}).get("status") == "FAILED" and not res[n].get("timed_out")
               and not any("unwinding assertion" in c for c in res[n]["failed_checks"])]
    cexs = kanirun.playback_many(failing, ["-Z", "stubbing"], jobs=ctx.get("jobs", 8)) if failing else {}
    for n in names:
        r = res.get(n)
        if r is None or r["status"] not in ("SUCCESSFUL", "FAILED"):
            errors.append("harness %s: no verdict" % n)
            continue
        if r.get("timed_out"):
            errors.append("harness %s: CBMC timed out (never counted as a pass)" % n)
            continue
        total_checks += r.get("checks", 0)
        samples.append({"harness": n, "status": r["status"], "checks": r.get("checks"), "cover_satisfied": r.get("cover_sat"), "seconds": r.get("time")})
        if r["status"] == "SUCCESSFUL":
            if r.get("cover_total", 0) and not r.get("cover_sat", 0):
                errors.append("harness %s is vacuous (cover witness unreachable)" % n)
            ok += 1
            continue
        if any("unwinding assertion" in c for c in r["failed_checks"]):
            errors.append("harness %s: unwinding bound too small (%s)" % (n, r["failed_checks"][:2]))
            continue
        vals = cexs.get(n, [])
        try:
            rep, desc = native_replay(d, n, vals)
        except Exception as e:
            rep, desc = False, "replay failed: %s" % e
        if rep:
            violations.append({"key": "literal-%s" % n.split("_")[0], "text": "%s: %s (Kani: %s)" % (n, desc, r["failed_checks"][:2]),
                               "replay": {"harness": n, "values": vals[:70], "native": desc, "kani_failed_checks": r["failed_checks"]}})
        else:
            errors.append("harness %s FAILED (%s) but does not reproduce natively: %s" % (n, r["failed_checks"][:2], desc))
    # TV side: identity programs -- the circuit returns exactly the input bits for every bit pattern that encodes a value
    st = solve.Stats()
    rng = random.Random(3)
    idn = 0
    for ty in ID_TYPES:
        prog = identity_program(ty)
        resid = tvcore.analyze(d, prog, dedup=True, cap=20.0, stats=st, rng=rng, queries=("value", "panic"), vectors=2)
        if resid["status"] != "ok":
            violations.append({"key": "identity-%s" % resid["status"], "text": "identity program over %s: %s %s" % (ty.src(), resid["status"], resid.get("errors") or resid.get("panic") or [f.as_dict() for f in resid["findings"]]),
                               "replay": {"source": resid["src"]}})
            continue
        idn += 1
        for f in resid["findings"]:
            dd = f.as_dict()
            if f.kind == "disagreement":
                violations.append({"key": "identity-function", "text": "identity program over %s does not return its argument on inputs %s" % (ty.src(), dd["inputs"]), "replay": {"source": resid["src"], **dd}})
            else:
                errors.append("identity counterexample did not reproduce: %s" % str(dd)[:200])
    d.close()
    if st.unknown:
        errors.append("%d identity queries undecided" % st.unknown)
    cov = {"evaluations": len(names) + idn, "distinct_nontrivial": ok + idn,
           "rule": "one Kani harness per (lemma, primitive type) plus one identity program per aggregate type; non-trivial = verified with a satisfiable cover witness (Kani) / all queries unsat (identity)",
           "samples": samples[:12] + [{"identity_types": [t.src() for t in ID_TYPES]}], "cbmc_checks_total": total_checks, "identity_programs": idn, "identity_solver": st.as_dict(),
           "explanation": "Kani executes the real Literal::is_of_type / as_bits / from_unwrapped_bits symbolically (program without struct/enum definitions; RandomState::new stubbed, the maps stay empty). Per primitive type: "
                          "(L1) accepted literal => exactly size(T) bits, bit i = bit (size-1-i) of the two's-complement value; (L2) every pattern of size(T) bits decodes to the value with that layout; "
                          "(L3) whatever the type test accepts is representable in T (symbolic u64 / i64 payload: an accepted out-of-range number is a counterexample); ranges: the type test answers for every (min, max) without panicking and accepts only "
                          "`size` representable numbers; mismatching primitive types are refused. TV side: identity programs over nested array / tuple / struct / enum types return their argument bits for all inputs.",
           "not_covered": "struct / enum literals through the API (every step is a HashMap<String,_> lookup: out of CBMC's reach) and print / parse round trips (Display + scanner + parser + checker); Literal::Array / Tuple / ArrayRepeat harnesses were tried and time out (Vec<Literal> on the heap)",
           "functions_encoded": ["literal.rs Literal::is_of_type", "literal.rs Literal::as_bits", "literal.rs Literal::from_unwrapped_bits", "compile.rs unsigned_to_bits / signed_to_bits"],
           "solver": {"backend": "CBMC 6.11 (cadical) via Kani 0.68; z3 for identity programs", "wall_seconds": round(time.time() - t0, 1)}}
    return {"violations": violations, "errors": errors, "inconclusive": 0, "inconclusive_limit": 0, "coverage": cov, "level": "model_checking",
            "assumptions": ["stub: std::hash::RandomState::new -> fixed keys (the program's maps are empty and never hashed)", "numeric payloads are fully symbolic (all 2^64 values); bit patterns fully symbolic",
                            "per-harness CBMC timeout 300 s; a timeout is an error, never a pass"],
            "headline": "%d Kani harnesses (%d verified), %d identity programs, %d CBMC checks" % (len(names), ok, idn, total_checks)}
