"""C10 -- the register-based circuit is equivalent to the SSA circuit and safe to execute."""
import itertools, random
import z3
import common, enc, solve, tvcore
from lang import render
from drv import Circuit, RegCircuit


def plan(ctx):
    tier, seed = ctx["tier"], ctx["seed"]
    items = []
    pools = [("general", 200), ("panic", 100), ("mutation", 100)] if tier == "quick" else \
        [("general", 1500), ("panic", 800), ("mutation", 700), ("wide", 1000)]
    for profile, n in pools:
        for i in range(0, n, 10):
            items.append({"kind": "programs", "profile": profile, "seeds": [seed * 100000 + 80000 + i + k for k in range(10)],
                          "cap": 20.0 if tier == "quick" else 120.0})
    # arbitrary well-formed gate lists: exhaustive small shapes
    shapes = [[1], [2], [1, 1]] if tier == "quick" else [[1], [2], [1, 1], [3], [2, 1], [1, 0, 1]]
    for shape in shapes:
        for ng in ((0, 1, 2) if tier == "quick" else (0, 1, 2, 3)):
            n_in = sum(shape)
            firsts = list(gate_choices(n_in)) if ng > 0 else [None]
            for first in firsts:
                items.append({"kind": "exhaustive", "shape": shape, "gates": ng, "first": first})
    for i in range(40 if tier == "quick" else 400):
        items.append({"kind": "random", "seed": seed * 1000 + i, "count": 40})
    return items


def gate_choices(nw):
    for a in range(nw):
        yield ("n", a, -1)
    for k in ("x", "a"):
        for a in range(nw):
            for b in range(nw):
                yield (k, a, b)


def all_gate_lists(n_in, ng, first):
    if ng == 0:
        yield []
        return
    def rec(prefix):
        if len(prefix) == ng:
            yield list(prefix)
            return
        for g in gate_choices(n_in + len(prefix)):
            yield from rec(prefix + [g])
    yield from rec([tuple(first)])


def output_lists(nw):
    for a in range(nw):
        yield [a]
    for a in range(nw):
        for b in range(nw):
            yield [a, b]


def check_batch(drv, batch, st, out):
    """batch: list of Circuit (same input shape). Convert each with the real converter, compare."""
    if not batch:
        return
    inputs = enc.Inputs(batch[0].inputs)
    diffs, meta = [], []
    for circ in batch:
        text = circ.to_text()
        r = drv.toregc(text)
        out["circuits"] += 1
        if r[0] != "ok":
            out["violations"].append({"key": "register-conversion-%s" % r[0], "text": "conversion of a valid SSA circuit: %s" % (r[:2],),
                                      "replay": {"ssa": text, "response": [str(x) for x in r[:3]]}})
            continue
        _, rc, validity = r
        oa = enc.encode_ssa(circ, inputs)
        v2, problems = structure(circ, rc, validity, inputs)
        for p in problems:
            out["violations"].append({"key": "register-structure", "text": p, "replay": {"ssa": text, "register": rc.text}})
        if list(rc.inputs) != list(circ.inputs):
            continue    # reported by structure(); the two forms do not take the same arguments, so there is nothing to compare
        ob, undefined = enc.encode_reg(rc, inputs)
        if len(oa) != len(ob):
            continue
        d = [a != b for a, b in zip(oa, ob) if not a.eq(b)]
        if d:
            diffs.append(z3.Or(*d))
            meta.append((circ, text, rc))
    if not diffs:
        st.queries += 1
        st.unsat += 1
        return
    verdict, model, _, _ = solve.decide([z3.Or(*diffs)], 30.0, st, use_kissat=False)
    if verdict != "sat":
        return
    for (circ, text, rc), dform in zip(meta, diffs):
        v, m, _, _ = solve.decide([dform], 30.0, st, use_kissat=False)
        if v != "sat":
            continue
        parties = inputs.party_values(m)
        a = drv.evalc(text, parties)
        b = drv.evalr(rc.text, parties)
        det = {"ssa": text, "register": rc.text, "inputs": tvcore.bits_str(parties), "ssa_output": str(a), "register_output": str(b)}
        if a != b:
            out["violations"].append({"key": "register-function", "text": "register circuit differs from SSA circuit %s on inputs %s: %s vs %s" % (text[:200], det["inputs"], b, a), "replay": det})
        else:
            out["nonrepro"].append(det)


def structure(circ, rc, validity, inputs):
    problems = []
    if validity != "valid":
        problems.append("register validate() rejects the converter's output: %s (ssa %s)" % (validity, circ.to_text()[:200]))
    if list(rc.inputs) != list(circ.inputs):
        problems.append("input_regs %s != input_gates %s" % (rc.inputs, circ.inputs))
    if rc.and_ops != circ.and_count():
        problems.append("and_ops %d != number of AND gates %d" % (rc.and_ops, circ.and_count()))
    wires = circ.n_inputs + len(circ.gates)
    regs = [inst[1] for inst in rc.insts] + [x for inst in rc.insts if inst[0] != "I" for x in inst[2:]] + list(rc.outputs)
    hi = max(regs + [-1])
    if rc.max_reg < hi + 1:
        problems.append("max_reg_count %d < highest register + 1 = %d (ssa %s)" % (rc.max_reg, hi + 1, circ.to_text()[:200]))
    if rc.max_reg > wires:
        problems.append("max_reg_count %d exceeds the number of wires %d" % (rc.max_reg, wires))
    # "loads every party's inputs in order": the Input instructions, in program order, are exactly the (party, index)
    # pairs in ascending order, each once. (Which registers they load into and where they sit between the other
    # instructions is left to the allocator; the functional query covers that.)
    want = [(p, i) for p, n in enumerate(circ.inputs) for i in range(n)]
    got = [(inst[2], inst[3]) for inst in rc.insts if inst[0] == "I"]
    if got != want:
        problems.append("Input instructions load %s, expected every party's inputs in order %s (ssa %s)" % (got[:12], want[:12], circ.to_text()[:200]))
    if len(rc.outputs) != len(circ.outputs):
        problems.append("%d output registers for %d output gates" % (len(rc.outputs), len(circ.outputs)))
    # definedness: a register must have been written before it is read (checked on the simulation)
    written = set()
    for idx, inst in enumerate(rc.insts):
        if inst[0] != "I":
            for x in inst[2:]:
                if x not in written:
                    problems.append("instruction %d reads register %d before any write (ssa %s)" % (idx, x, circ.to_text()[:200]))
        written.add(inst[1])
    for x in rc.outputs:
        if x not in written:
            problems.append("output register %d is never written" % x)
    return None, problems


def random_circuit(rng):
    shape = [rng.randint(0, 3) for _ in range(rng.randint(1, 3))]
    if sum(shape) == 0:
        shape[0] = 1
    n_in = sum(shape)
    ng = rng.randint(1, 60)
    gates = []
    hot = []
    for k in range(ng):
        nw = n_in + k
        def pick():
            r = rng.random()
            if hot and r < 0.3:
                return rng.choice(hot)
            if r < 0.6:
                return rng.randrange(max(0, nw - 4), nw)
            return rng.randrange(nw)
        t = rng.choice("xxaan")
        if t == "n":
            gates.append(("n", pick(), -1))
        else:
            a = pick()
            b = a if rng.random() < 0.1 else pick()
            gates.append((t, a, b))
        if rng.random() < 0.15:
            hot.append(n_in + k)
    nw = n_in + ng
    outs = [rng.randrange(nw) for _ in range(rng.randint(1, 6))]
    if rng.random() < 0.3:
        outs.append(outs[0])
    if rng.random() < 0.3:
        outs.append(rng.randrange(n_in))
    return Circuit(shape, gates, outs)


def work(item, drv):
    st = solve.Stats()
    out = {"item": item, "violations": [], "nonrepro": [], "circuits": 0, "programs": 0, "gates": 0, "samples": []}
    kind = item["kind"]
    if kind == "programs":
        for s in item["seeds"]:
            prog = common.make_program(item["profile"], s)
            src = render(prog)
            for dedup in (True, False):
                r = drv.compile(src, dedup=dedup)
                if r[0] != "ok":
                    continue
                cid, circ = r[1], r[2]
                try:
                    inputs = enc.Inputs(circ.inputs)
                    outs = enc.encode_ssa(circ, inputs)
                    verdict, v, n, info = tvcore.register_check(drv, cid, circ, inputs, outs, item["cap"], st, src=src, dedup=dedup)
                    out["violations"] += v
                    out["nonrepro"] += n
                    out["programs"] += 1
                    out["gates"] += len(circ.gates)
                    # the public Register compile option must give a validated circuit too
                    if len(out["samples"]) < 1 and len(circ.gates) > 30:
                        out["samples"].append({"kind": "compiled program", "gates": len(circ.gates), "register_info": info, "verdict": verdict, "source": src[:1000]})
                finally:
                    drv.drop(cid)
            rr = drv.compile_reg(src, dedup=True)
            if rr[0] == "ok" and rr[2] != "valid":
                out["violations"].append({"key": "register-structure", "text": "CircuitKind::Register output fails validate(): %s" % rr[2], "replay": {"source": src}})
    elif kind == "exhaustive":
        shape = item["shape"]
        n_in = sum(shape)
        batch = []
        cnt = 0
        for gates in all_gate_lists(n_in, item["gates"], item["first"]):
            for outs in output_lists(n_in + len(gates)):
                batch.append(Circuit(shape, gates, outs))
                cnt += 1
                if len(batch) >= 300:
                    check_batch(drv, batch, st, out)
                    batch = []
        check_batch(drv, batch, st, out)
        out["samples"].append({"kind": "exhaustive gate lists", "shape": shape, "gates": item["gates"], "first_gate": item["first"], "circuits": cnt})
    else:
        rng = random.Random(item["seed"])
        groups = {}
        first = None
        for _ in range(item["count"]):
            c = random_circuit(rng)
            first = first or c
            groups.setdefault(tuple(c.inputs), []).append(c)
        for g in groups.values():
            check_batch(drv, g, st, out)
        out["samples"].append({"kind": "random gate list", "circuit": first.to_text()[:600]})
    out["stats"] = st.as_dict()
    return out


def summarize(ctx, items, results):
    st = solve.Stats()
    viol, errors, samples = [], [], []
    programs = circuits = gates = 0
    for r in results:
        if "error" in r:
            errors.append("worker failure on %s: %s %s" % (str(r["item"])[:100], r["error"], r.get("trace", "")[-400:]))
            continue
        sd = r["stats"]
        st.queries += sd["queries"]; st.unsat += sd["unsat"]; st.sat += sd["sat"]; st.unknown += sd["inconclusive"]; st.z3_s += sd["z3_seconds"]
        viol += r["violations"]
        programs += r["programs"]; circuits += r["circuits"]; gates += r["gates"]
        for d in r["nonrepro"]:
            errors.append("counterexample did not reproduce natively: %s" % str(d)[:300])
        if r["samples"] and sum(1 for s in samples if s.get("kind") == r["samples"][0].get("kind")) < 2:
            samples += r["samples"][:1]
    # de-duplicate structural problems by text
    seen, uniq = set(), []
    for v in viol:
        k = (v["key"], v["text"][:120])
        if k not in seen:
            seen.add(k)
            uniq.append(v)
    cov = {"programs": programs + circuits, "disagreements_checked": st.queries, "samples": samples,
           "explanation": "SSA circuits (every compiler output of the program pools, with de-duplication on and off, plus arbitrary well-formed gate lists) are converted by the real "
                          "From<&SsaCircuit>; the register program is simulated symbolically over a register file and mitered against the SSA circuit for ALL inputs. On the concrete "
                          "artefact: real validate() accepts, input instructions first and in party order, no register read before written, max_reg_count >= highest register + 1 and <= wire count, and_ops == AND gates.",
           "compiled_circuits": programs, "arbitrary_gate_lists": circuits, "gates_encoded": gates, "solver": st.as_dict(),
           "bounds": {"exhaustive": "all gate lists with <= 2 gates (thorough <= 3) over input shapes [1],[2],[1,1] (thorough also [3],[2,1],[1,0,1]) x all output lists of length <= 2 (inputs and repeats included)",
                      "random": "seeded gate lists of 1..60 gates with high fan-out wires, repeated operands, unused inputs/gates, repeated and input outputs"},
           "functions_encoded": ["register_circuit::Circuit::from(&SsaCircuit) (RegisterAllocator::convert_circuit / find_out_reg / last_use_map)", "register_circuit::Circuit::{validate, eval}"]}
    return {"violations": uniq, "errors": errors, "inconclusive": st.unknown, "inconclusive_limit": max(2, st.queries // 50), "coverage": cov,
            "level": "translation_validation",
            "assumptions": ["circuit shapes and gate lists are enumerated / seeded; inputs are symbolic", "z3 decides each miter (batched up to 300 circuits per query)"],
            "headline": "%d compiled circuits, %d arbitrary gate lists, %d queries (%d unsat, %d sat, %d undecided)" % (programs, circuits, st.queries, st.unsat, st.sat, st.unknown)}
