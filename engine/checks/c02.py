"""C02 -- panic iff the source semantics fail; first failure wins; untaken code is silent."""
import common


def plan(ctx):
    seed, tier = ctx["seed"], ctx["tier"]
    items = []
    if tier == "quick":
        pools = [("panic", 600), ("general", 150), ("mutation", 100), ("assignorder", 200)]
        cap = 20.0
    else:
        pools = [("panic", 5000), ("general", 1000), ("mutation", 1000), ("widepanic", 3000), ("assignorder", 1000)]
        cap = 120.0
    for profile, n in pools:
        for i in range(n):
            items.append({"profile": profile, "seed": seed * 100000 + 20000 + i, "queries": ("panic", "loc"),
                          "dedups": (True, False), "cap": cap, "reg": False, "vectors": 3})
    # fixed templates around arrays of length 0 (the generator does not produce zero-sized types)
    for k in range(common.ZEROLEN_FORMS):
        items.append({"profile": "zerolen", "seed": k, "queries": ("panic", "loc"), "dedups": (True, False), "cap": cap, "reg": False, "vectors": 2})
    return items


def work(item, drv):
    return common.tv_item(item, drv)


def summarize(ctx, items, results):
    what = ("For each generated program (profile biased to several potentially failing operations: repeated sub-expressions, "
            "sites in both branches and after the join point, in match arms, short-circuit operands, loops, callees) and each "
            "de-duplication setting, two queries over ALL argument values: (i) the circuit's panic flag differs from the reference's "
            "'some operation fails on the executed path' -- unsat; (ii) both panic but the circuit's 160-bit (reason, start line/col, "
            "end line/col) record differs from that of the FIRST failing operation in evaluation order -- unsat. "
            "Besides the seeded profiles (panic, general, mutation) the pool holds the profile `assignorder` (nested arrays assigned through "
            "input-dependent indices whose later index expressions and values can fail themselves or assign to an earlier index variable) and 14 fixed "
            "templates around arrays of length 0 (reads, writes, loops next to another operation that can fail). "
            "disagreements_checked = solver queries discharged.")
    return common.summarize_tv(ctx, items, results, "C02", what, common.BASE_ASSUMPTIONS + [
        "source locations: span of an operation = first char of its left-most operand .. after the last char of its right-most operand (0-based, outer parentheses excluded), computed by the generator's printer; for a field access the front end reports the field identifier only and the printer mirrors that",
        "bounds: as C01; per-query cap 20 s / 120 s",
    ])
