"""C12 -- const parameters act as literal substitution; missing / mistyped ones are errors."""
import random
import z3
import common, enc, gen, ref, solve, tvcore
import lang
from lang import *

CONST_TYPES = [USIZE, U8, U16, U32, U64, I8, I16, I32, I64, BOOL]


def wrap(ty, v):
    m = 1 << ty.bits
    v %= m
    if ty.signed and v >= m // 2:
        v -= m
    return v


class ConstGen:
    """const declarations: source text + value (wrapping arithmetic of the constant's declared type)"""

    def __init__(self, rng, size_values):
        self.rng = rng
        self.size_values = size_values
        self.decls = []  # (name, ty, src, value)
        self.ext = {}  # (party, ident) -> (ty, value)

    def lit(self, ty, v):
        return "%d%s" % (v, ty.name)

    def external(self, ty, want=None):
        party = "PARTY_%d" % self.rng.randint(0, 2)
        ident = "X%d" % len(self.ext)
        if want is not None:
            v = want
        elif isinstance(ty, TBool):
            v = self.rng.randint(0, 1)
        elif ty == USIZE:
            v = self.rng.choice(self.size_values)
        else:
            v = self.rng.choice([0, 1, 2, 3, ty.max, ty.max - 1, ty.min, ty.min + 1 if ty.signed else 4, -1 if ty.signed else 5, self.rng.randint(ty.min, ty.max)])
        self.ext[(party, ident)] = (ty, v)
        return "%s::%s" % (party, ident), v

    def expr(self, ty, d, small):
        """-> (src, value); `small`: keep the value inside the small size range (array sizes)"""
        r = self.rng.random()
        earlier = [(n, v) for n, t, s, v in self.decls if t == ty]
        if isinstance(ty, TBool):
            if r < 0.5:
                return self.external(ty)
            if r < 0.7 and earlier:
                return self.rng.choice(earlier)
            v = self.rng.randint(0, 1)
            return ("true" if v else "false"), v
        if d <= 0 or r < 0.3:
            k = self.rng.random()
            if k < 0.5:
                return self.external(ty)
            if k < 0.7 and earlier:
                return self.rng.choice(earlier)
            v = self.rng.choice(self.size_values) if small else self.rng.choice([0, 1, 2, 5, ty.max, ty.min, self.rng.randint(ty.min, ty.max)])
            return self.lit(ty, v), v
        if r < 0.55:
            f = self.rng.choice(["min", "max"])
            args = [self.expr(ty, d - 1, small) for _ in range(self.rng.randint(2, 3))]
            v = (min if f == "min" else max)(a[1] for a in args)
            return "%s(%s)" % (f, ", ".join(a[0] for a in args)), v
        op = self.rng.choice(["+", "-"])
        a = self.expr(ty, d - 1, small)
        b = self.expr(ty, d - 1, small)
        v = wrap(ty, a[1] + b[1] if op == "+" else a[1] - b[1])
        bs = "(%s)" % b[0] if (" + " in b[0] or " - " in b[0]) and not b[0].startswith(("min(", "max(")) else b[0]
        if (" + " in b[0] or " - " in b[0]) and b[0].startswith(("min(", "max(")) and ")" in b[0][:-1]:
            bs = "(%s)" % b[0]
        return "%s %s %s" % (a[0], op, bs), v

    def declare(self, ty, small=False):
        name = "C%d" % len(self.decls)
        for _ in range(20):
            n_ext = len(self.ext)
            src, v = self.expr(ty, 2, small)
            if not small or v in self.size_values:
                break
            for k in list(self.ext)[n_ext:]:
                del self.ext[k]
        else:
            src, v = self.external(ty, want=self.rng.choice(self.size_values))
        self.decls.append((name, ty, src, v))
        return name, v


class ConstProgGen(gen.Gen):
    def __init__(self, seed, cfg, size_values):
        super().__init__(seed, cfg)
        self.cg = ConstGen(self.rng, size_values)
        self.size_consts = []

    def rand_type(self, d=2, first_enum_field=False):
        if d > 0 and self.size_consts and self.chance(0.25) and not first_enum_field:
            name, n = self.pick(self.size_consts)
            if n >= 1:
                elem = self.rand_scalar()
                if self.chance(0.3):   # [[T; C2]; C1]: the element type needs the constants too
                    name2, n2 = self.pick(self.size_consts)
                    if n2 >= 1:
                        elem = TArrC(elem, n2, name2)
                return TArrC(elem, n, name)
        return super().rand_type(d, first_enum_field)

    def construct(self, ty, d):
        if isinstance(ty, TArrC):
            return ArrRep(self.expr(ty.elem, d), ty.n, size_src=ty.size_src)
        return super().construct(ty, d)

    def program(self):
        # constants first: at least one usize size constant
        for _ in range(self.rng.randint(1, 2)):
            self.size_consts.append(self.cg.declare(USIZE, small=True))
        for _ in range(self.rng.randint(1, 3)):
            self.cg.declare(self.pick(CONST_TYPES))
        self.make_defs()
        self.scopes = [{}]
        for name, ty, src, v in self.cg.decls:
            self.no_shadow.add(name)
            if ty in self.cfg.int_types or isinstance(ty, TBool) or ty == USIZE:
                self.declare(name, ty, False)
        params = []
        name, n = self.pick(self.size_consts)
        single = self.chance(0.3)
        params.append((self.fresh("x"), TArrC(self.rand_scalar(), n, name), self.chance(0.4)))
        if not single:
            for _ in range(self.rng.randint(1, 2)):
                params.append((self.fresh("x"), self.rand_type(1), self.chance(0.3)))
        self.scopes.append({})
        for n_, t, m in params:
            self.declare(n_, t, m)
        self.budget = 50
        self.scopes.append({})
        stmts = []
        for _ in range(self.rng.randint(1, self.cfg.stmts)):
            st = self.stmt(self.cfg.depth)
            if st is not None:
                stmts.append(st)
            self.budget = max(self.budget, 15)
        vs = [v for v in self.vars_of(lambda t, m: True) if size_of(v[1]) > 0][:5]
        e = TupLit([Var(n_, t) for n_, t, m in vs]) if len(vs) >= 2 else self.expr(self.rand_scalar(), self.cfg.depth)
        self.scopes.pop()
        main = FnDef("main", params, e.ty, Block(stmts, e), pub=True)
        prog = Program(self.fns + [main], self.structs, self.enums, [(n_, t, s) for n_, t, s, v in self.cg.decls])
        return prog


def generate(seed, size_values):
    cfg = gen.Cfg(int_types=[U8, I8, U16, I16, USIZE], mutation=0.5, depth=2, stmts=4, calls=True)
    for attempt in range(50):
        g = ConstProgGen(seed * 1000 + attempt, cfg, size_values)
        try:
            p = g.program()
        except gen.NoStruct:
            continue
        f = p.fn("main")
        if size_of(f.ret) == 0 or sum(size_of(t) for _, t, _ in f.params) == 0:
            continue
        return gen.prune_unused(p), g.cg
    raise RuntimeError("generator failed")


def consts_arg(ext, drop=(), mistype=()):
    items = []
    for (party, ident), (ty, v) in ext.items():
        if (party, ident) in drop:
            continue
        t = ty
        if (party, ident) in mistype:
            t = U16 if ty != U16 else U8
            if isinstance(ty, TBool):
                items.append("%s/%s=u:1:u8" % (party, ident))
                continue
            vv = max(0, min(v, t.max))
            items.append("%s/%s=u:%d:%s" % (party, ident, vv, t.name))
            continue
        if isinstance(ty, TBool):
            items.append("%s/%s=%s" % (party, ident, "t" if v else "f"))
        elif ty.signed:
            items.append("%s/%s=s:%d:%s" % (party, ident, v, ty.name))
        else:
            items.append("%s/%s=u:%d:%s" % (party, ident, v, ty.name))
    return ";".join(items) if items else "-"


def plan(ctx):
    tier, seed = ctx["tier"], ctx["seed"]
    n = 300 if tier == "quick" else 3000
    per = 10
    items = [{"seeds": [seed * 100000 + 5000000 + i + k for k in range(per)], "cap": 20.0 if tier == "quick" else 90.0} for i in range(0, n, per)]
    # const-expression programs: many constants of every type, deeper expressions biased to boundary values, returned as a tuple
    m = 1200 if tier == "quick" else 12000
    items += [{"kind": "constexpr", "seeds": [seed * 100000 + 6000000 + i + k for k in range(40)], "cap": 20.0} for i in range(0, m, 40)]
    # repeat-literal sizes that are constants of value 0..3 (0 half of the time), as local arrays
    z = 120 if tier == "quick" else 1200
    items += [{"kind": "sizezero", "seeds": [seed * 100000 + 7000000 + i + k for k in range(20)], "cap": 20.0} for i in range(0, z, 20)]
    return items


def constexpr_program(seed):
    rng = random.Random(seed)
    cg = ConstGen(rng, [1, 2, 3])
    n = rng.randint(3, 7)
    for _ in range(n):
        ty = rng.choice([t for t in CONST_TYPES if not isinstance(t, TBool)] + [I8, I16, U8, I8])
        name = "C%d" % len(cg.decls)
        src, v = cg.expr(ty, 3, False)
        cg.decls.append((name, ty, src, v))
    vals = [Var(nm, t) for nm, t, s, v in cg.decls]
    e = TupLit(vals) if len(vals) > 1 else vals[0]
    prog = Program([FnDef("main", [("x", U8, False)], e.ty, Block([], e), pub=True)], [], [], [(nm, t, s) for nm, t, s, v in cg.decls])
    return prog, cg


def sizezero_program(seed):
    """`[elem; N]` with a usize constant N in 0..3 (0 half of the time) used as a local value: iterated over, indexed,
    copied. Zero-length arrays appear only as locals (zero-sized parameters / results belong to C05)."""
    rng = random.Random(seed)
    want = rng.choice([0, 0, 0, 1, 2, 3])
    cg = ConstGen(rng, [want])
    name, n = cg.declare(USIZE, small=True)
    x, i = Var("x", U16), Var("i", USIZE)
    ety = rng.choice([U16, TTup([U16, BOOL]), TArr(U16, 2)])
    elem = x if ety is U16 else (TupLit([x, Lit(BOOL, 1)]) if isinstance(ety, TTup) else ArrLit([x, Bin("^", x, Lit(U16, 1))]))
    arr = Var("arr", TArrC(ety, n, name))
    r, cnt = Var("r", U16), Var("cnt", U8)
    stmts = [Let(PVar("arr"), ArrRep(elem, n, size_src=name)) if rng.random() < 0.7 else LetMut("arr", ArrRep(elem, n, size_src=name)),
             LetMut("r", Lit(U16, 7)), LetMut("cnt", Lit(U8, 0))]
    e = Var("e", ety)
    ev = e if ety is U16 else (TupGet(e, 0) if isinstance(ety, TTup) else Index(e, Lit(USIZE, 1)))
    body = [Assign("r", U16, [], ev, rng.choice(["^", "+"])), Assign("cnt", U8, [], Lit(U8, 1), "+")]
    stmts.append(For(PVar("e"), arr, body))
    k = rng.random()
    if k < 0.35:
        el = Index(arr, i)
        stmts.append(Assign("r", U16, [], el if ety is U16 else (TupGet(el, 0) if isinstance(ety, TTup) else Index(el, Lit(USIZE, 0))), "^"))
    elif k < 0.5:
        el = Index(arr, Lit(USIZE, 0))
        stmts.append(Assign("r", U16, [], el if ety is U16 else (TupGet(el, 0) if isinstance(ety, TTup) else Index(el, Lit(USIZE, 0))), "^"))
    if rng.random() < 0.4:
        stmts.append(Assign("r", U16, [], Bin("/", Lit(U16, 100), x), "+"))
    ret = TupLit([r, cnt])
    prog = Program([FnDef("main", [("x", U16, False), ("i", USIZE, False)], ret.ty, Block(stmts, ret), pub=True)], [], [], [(nm, t, s_) for nm, t, s_, v in cg.decls])
    return prog, cg


def zero_text(ty):
    """a literal text of type ty (all zero); None for types this printer does not cover"""
    if isinstance(ty, TBool):
        return "false"
    if isinstance(ty, TInt):
        return "0" + ty.name
    if isinstance(ty, (TArr, TArrC)):
        e = zero_text(ty.elem)
        return None if e is None or ty.n < 1 else "[" + ", ".join([e] * ty.n) + "]"
    if isinstance(ty, TTup):
        es = [zero_text(t) for t in ty.elems]
        return None if any(e is None for e in es) or len(es) < 2 else "(" + ", ".join(es) + ")"
    return None


def substituted_source(prog):
    """the twin program: every constant replaced by its value, const declarations removed"""
    lang.SUBST = {n: (t, v) for n, t, v in prog._const_values}
    try:
        twin = Program(prog.fns, prog.structs, prog.enums, [])
        return render(twin)
    finally:
        lang.SUBST = None


def check_one(drv, seed, cap, st, out, kind=None):
    rng = random.Random(seed)
    size_values = rng.choice([[1, 2, 3], [1, 2, 3, 4], [1, 2]])
    if kind == "constexpr":
        prog, cg = constexpr_program(seed)
    elif kind == "sizezero":
        prog, cg = sizezero_program(seed)
    else:
        prog, cg = generate(seed, size_values)
    prog._const_values = [(n, t, v) for n, t, s, v in cg.decls]
    const_values = {}
    for n, t, s, v in cg.decls:
        const_values[n] = (t, z3.BoolVal(bool(v)) if isinstance(t, TBool) else z3.BitVecVal(v, t.bits))
    src = render(prog)
    carg = consts_arg(cg.ext)
    rep = {"source": src, "constants": carg, "declared": [(n, t.src(), s, v) for n, t, s, v in cg.decls]}
    out["programs"] += 1
    # (1) P compiled with constants == reference with the constants substituted (computed by the generator in wrapping arithmetic of the declared type)
    res = tvcore.analyze(drv, prog, dedup=True, consts=carg, const_values=const_values, cap=cap, stats=st, rng=rng, vectors=2, src=src, keep=True)
    if res["status"] == "rejected":
        out["rejected"].append({"source": src, "errors": str(res.get("errors"))[:300]})
        return
    if res["status"] != "ok":
        out["violations"].append({"key": "const-program-%s" % res["status"], "text": "program with constants %s: %s %s" % (carg, res["status"], res.get("panic") or res.get("errors") or [f.as_dict() for f in res["findings"]]), "replay": rep})
        return
    out["compiled"] += 1
    for f in res["findings"]:
        d = f.as_dict()
        if f.kind == "disagreement":
            out["violations"].append({"key": "const-substitution-%s" % d["query"], "text": "compile_with_constants(%s) differs from literal substitution (%s query) on inputs %s" % (carg, d["query"], d["inputs"]), "replay": {**rep, **d}})
        else:
            out["nonrepro"].append(d)
    cid = res["cid"]
    try:
        # (2) miter against the real compilation of the substituted twin (flag, reason, value; locations differ by construction)
        twin_src = substituted_source(prog)
        rt = drv.compile(twin_src, dedup=True)
        if rt[0] != "ok":
            out["violations"].append({"key": "twin-%s" % rt[0], "text": "substituted twin does not compile: %s" % (str(rt[1:3])[:300]), "replay": {**rep, "twin": twin_src}})
        else:
            try:
                ca, cb = res["_circ"], rt[2]
                if list(ca.inputs) != list(cb.inputs) or len(ca.outputs) != len(cb.outputs):
                    out["violations"].append({"key": "twin-shape", "text": "parties/outputs differ from the substituted twin: %s/%d vs %s/%d" % (ca.inputs, len(ca.outputs), cb.inputs, len(cb.outputs)), "replay": {**rep, "twin": twin_src}})
                else:
                    # literal-level argument API: the evaluator must accept / refuse the same literal texts for P with
                    # constants and for its substituted twin, and print the same result (native differential run)
                    texts = [zero_text(t) for _, t, _ in prog.fn("main").params]
                    if all(x is not None for x in texts):
                        la, lb = drv.evallit(cid, texts), drv.evallit(rt[1], texts)
                        out["literal_runs"] += 1
                        if la != lb:
                            out["violations"].append({"key": "const-literal-args", "text": "Evaluator::parse_literal / run on %s: %s with constants vs %s for the substituted twin" % (texts, la, lb), "replay": {**rep, "twin": twin_src, "literals": texts}})
                    inputs = res["_inputs"]
                    oa, ob = res["_outs"], enc.encode_ssa(cb, inputs)
                    sel = [0] + list(range(1, 33)) + list(range(enc.PANIC_BITS, len(oa)))
                    # reason bits only matter under the panic flag
                    d = [oa[0] != ob[0]] + [z3.And(oa[0], oa[k] != ob[k]) for k in range(1, 33)] + [oa[k] != ob[k] for k in range(enc.PANIC_BITS, len(oa))]
                    verdict, model, _, _ = solve.decide([z3.Or(*d)], cap, st)
                    out["twins"] += 1
                    if verdict == "sat":
                        parties = inputs.party_values(model)
                        a, b = drv.eval(cid, parties), drv.eval(rt[1], parties)
                        same = a[0] == b[0] and a[enc.PANIC_BITS:] == b[enc.PANIC_BITS:] and (not a[0] or a[1:33] == b[1:33])
                        det = {**rep, "twin": twin_src, "inputs": tvcore.bits_str(parties)}
                        if not same:
                            out["violations"].append({"key": "const-vs-twin", "text": "program with constants and its substituted twin differ on inputs %s" % det["inputs"], "replay": det})
                        else:
                            out["nonrepro"].append(det)
            finally:
                drv.drop(rt[1])
    finally:
        drv.drop(cid)
    if len(out["samples"]) < 1:
        out["samples"].append({"source": src, "constants": carg, "verdicts": res["verdicts"], "gates": res["gates"]})
    # (3) error side: withheld / mistyped constants must be named in an error, never a panic
    keys = list(cg.ext.keys())
    trials = []
    if keys:
        k1 = rng.sample(keys, rng.randint(1, len(keys)))
        trials.append(("missing", set(k1), set()))
        k2 = rng.sample(keys, rng.randint(1, len(keys)))
        trials.append(("mistyped", set(), set(k2)))
        trials.append(("all-missing", set(keys), set()))
    for kind, drop, mist in trials:
        r = drv.compile(src, dedup=True, consts=consts_arg(cg.ext, drop, mist))
        out["error_trials"] += 1
        rep2 = {**rep, "constants": consts_arg(cg.ext, drop, mist), "withheld": sorted("%s::%s" % k for k in drop), "mistyped": sorted("%s::%s" % k for k in mist)}
        if r[0] == "ok":
            drv.drop(r[1])
            out["violations"].append({"key": "const-error-accepted", "text": "compilation succeeded although constants were %s: %s" % (kind, rep2["withheld"] or rep2["mistyped"]), "replay": rep2})
        elif r[0] == "panic":
            out["violations"].append({"key": "const-error-panic-%s" % kind.split("-")[-1], "text": "compilation panicked (%s) instead of reporting %s constants %s" % (r[1][:120], kind, rep2["withheld"] or rep2["mistyped"]), "replay": rep2})
        elif r[0] == "err" and r[1] == "compiler":
            msgs = " | ".join(m for m, _, _ in r[2])
            want = rep2["withheld"] if drop else rep2["mistyped"]
            if drop:
                missing_named = [w for w in want if w not in msgs]
                if missing_named or len(r[2]) != len(want):
                    out["violations"].append({"key": "const-error-incomplete", "text": "error does not name exactly the withheld constants %s: %s" % (want, msgs[:300]), "replay": rep2})
            else:
                if len(r[2]) != len(want) or "not of type" not in msgs:
                    out["violations"].append({"key": "const-error-incomplete", "text": "error does not report each of the %d mistyped constants: %s" % (len(want), msgs[:300]), "replay": rep2})
        else:
            out["violations"].append({"key": "const-error-other", "text": "unexpected response %s for %s constants" % (str(r[:2]), kind), "replay": rep2})


def work(item, drv):
    st = solve.Stats()
    out = {"item": item, "violations": [], "nonrepro": [], "programs": 0, "compiled": 0, "twins": 0, "error_trials": 0, "literal_runs": 0, "rejected": [], "samples": []}
    for s in item["seeds"]:
        check_one(drv, s, item["cap"], st, out, item.get("kind"))
    out["stats"] = st.as_dict()
    return out


def summarize(ctx, items, results):
    st = solve.Stats()
    viol, errors, samples, rejected = [], [], [], []
    tot = {"programs": 0, "compiled": 0, "twins": 0, "error_trials": 0, "literal_runs": 0}
    for r in results:
        if "error" in r:
            errors.append("worker failure on %s: %s %s" % (str(r["item"])[:100], r["error"], r.get("trace", "")[-600:]))
            continue
        sd = r["stats"]
        st.queries += sd["queries"]; st.unsat += sd["unsat"]; st.sat += sd["sat"]; st.unknown += sd["inconclusive"]; st.z3_s += sd["z3_seconds"]; st.kissat_s += sd["kissat_seconds"]
        viol += r["violations"]
        rejected += r["rejected"]
        for k in tot:
            tot[k] += r[k]
        for d in r["nonrepro"]:
            errors.append("counterexample did not reproduce natively: %s" % str(d)[:300])
        if len(samples) < 3:
            samples += r["samples"][:1]
    if len(rejected) * 10 > max(1, tot["programs"]):
        errors.append("%d of %d generated const programs were rejected by the front end: %s" % (len(rejected), tot["programs"], rejected[:2]))
    cov = {"programs": tot["compiled"], "disagreements_checked": st.queries, "samples": samples or [{"note": "none"}],
           "explanation": "Programs with const declarations (external values, references to earlier consts, nested min/max/+/-; bool, u8..u64, i8..i64, usize) used as values, array sizes in parameter / let types, "
                          "repeat-literal sizes and party counts. The generator computes every constant in wrapping arithmetic of its DECLARED type. (1) compile_with_constants(P, c) vs the reference with the values substituted: "
                          "value, panic-iff and location queries over all inputs. (2) miter against the real compilation of the textually substituted twin P[c] (flag, reason, value). (3) withheld / mistyped constants: "
                          "Err naming exactly those constants, never a panic. (4) literal_runs: NATIVE differential runs (not solver queries) of the real Evaluator (parse_literal per parameter, run, printed result) on one all-zero "
                          "literal per parameter, program with constants vs substituted twin; covers const-sized arrays of const-sized arrays as parameter types.",
           **tot, "rejected_by_front_end": len(rejected), "solver": st.as_dict(),
           "bounds": "1-2 usize size constants with values in 1..4, 1-3 further constants, const expressions nested <= 2; program body as the general generator (depth 2)",
           "functions_encoded": ["compile.rs compile_with_constants / resolve_const_expr_* (run natively, result circuit encoded)", "eval.rs resolve_const_type (parameter shapes)"]}
    return {"violations": viol, "errors": errors, "inconclusive": st.unknown, "inconclusive_limit": max(2, st.queries // 50), "coverage": cov,
            "level": "translation_validation",
            "assumptions": ["constant assignments are seeded (boundary values of each type); inputs are symbolic", "parameter / result array sizes 0 are not generated here (zero-sized parameters belong to C05); repeat-literal sizes 0 are, as local arrays"] + common.BASE_ASSUMPTIONS[:3],
            "headline": "%d const programs (%d compiled, %d twins, %d error trials), %d queries (%d undecided)" % (tot["programs"], tot["compiled"], tot["twins"], tot["error_trials"], st.queries, st.unknown)}
