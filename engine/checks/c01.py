"""C01 -- the compiled circuit returns exactly the value the source program denotes."""
import common


def plan(ctx):
    seed, tier = ctx["seed"], ctx["tier"]
    items = []
    if tier == "quick":
        pools = [("general", 400), ("mutation", 150), ("panic", 50)]
        cap = 20.0
    else:
        pools = [("general", 3000), ("mutation", 1000), ("wide", 2000), ("panic", 500), ("widemutation", 500)]
        cap = 120.0
    for profile, n in pools:
        for i in range(n):
            items.append({"profile": profile, "seed": seed * 100000 + i, "queries": ("value",), "dedups": (True, False),
                          "cap": cap, "reg": True, "vectors": 3})
    return items


def work(item, drv):
    return common.tv_item(item, drv)


def summarize(ctx, items, results):
    what = ("For each generated program and each of {gate de-duplication on, off}: the real compiler's circuit is encoded as a "
            "formula over symbolic argument bits and z3 is asked for an argument tuple on which the source semantics do not panic "
            "but the circuit panics or decodes to a different value (unsat = none exists among all 2^n inputs). The register form "
            "of each circuit (real From<&SsaCircuit>) is simulated symbolically and mitered against the SSA form. "
            "disagreements_checked = solver queries discharged.")
    return common.summarize_tv(ctx, items, results, "C01", what, common.BASE_ASSUMPTIONS + [
        "bounds: expression depth <= 3, <= 5 statements per block, arrays <= 3 elements, integer types u8/i8/u16/i16 (quick) plus u32/i32/u64/i64/usize (thorough, `* / %` only with one literal operand above 8 bits); per-query cap 20 s / 120 s; pools: 600 programs quick, 7000 thorough",
    ])
