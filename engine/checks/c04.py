"""C04 -- circuit optimizations never change the computed function."""
import itertools, random, time
import z3
import common, enc, gen, solve, tvcore
from lang import render
from drv import Circuit

BIN = ("x", "a", "o", "e")


def plan(ctx):
    tier, seed = ctx["tier"], ctx["seed"]
    items = []
    # (a) programs: de-duplication on vs off
    pools = [("general", 300), ("panic", 300), ("mutation", 150)] if tier == "quick" else \
        [("general", 2000), ("panic", 2000), ("mutation", 1000), ("wide", 1000), ("widepanic", 1000)]
    for profile, n in pools:
        for i in range(0, n, 10):
            items.append({"kind": "programs", "profile": profile, "seeds": [seed * 100000 + 60000 + i + k for k in range(10)],
                          "cap": 20.0 if tier == "quick" else 120.0})
    # (b) builder request sequences through the verif_hooks wrapper
    #     exhaustive: every sequence of <= 2 requests over 2 inputs, all request kinds, both cache settings
    for first in all_requests(4):
        items.append({"kind": "exhaustive2", "first": first, "inputs": 2})
    if tier == "thorough":
        # every sequence of 3 xor/and/not requests over 2 inputs
        for first in all_requests(4, ops=("x", "a", "n")):
            items.append({"kind": "exhaustive3", "first": first, "inputs": 2})
    # every sequence of 3 xor/and/not requests over 3 inputs whose operands are inputs or earlier results (no constants):
    # 41580 sequences x cache on/off. (The thorough tier's 2-input version above also takes the constants as operands.)
    for first in all_requests(["i0", "i1", "i2"], ops=("x", "a", "n")):
        items.append({"kind": "exhaustive3n", "first": first, "inputs": 3})
    # every sequence of 4 xor/and requests over 3 inputs whose first request is op(i0, i1) and whose operands are
    # inputs or earlier results (quick: distinct operands; thorough: also equal operands), ordered pairs
    for first in (("x", "i0", "i1"), ("a", "i0", "i1")):
        for second in pair_requests(3, 1, tier == "thorough"):
            items.append({"kind": "exhaustive4", "first": first, "second": second, "inputs": 3, "equal": tier == "thorough"})
    nrand = 40 if tier == "quick" else 400
    for i in range(nrand):
        items.append({"kind": "random", "seed": seed * 1000 + i, "count": 25, "inputs": 3})
    return items


def refs(n_inputs, n_results, adders=()):
    r = ["c0", "c1"] + ["i%d" % k for k in range(n_inputs)]
    for k in range(n_results):
        r.append("r%d" % k)
        if k in adders:
            r.append("r%d'" % k)
    return r


def all_requests(nrefs_or_list, ops=("x", "a", "o", "e", "n", "m", "d")):
    rs = nrefs_or_list if isinstance(nrefs_or_list, list) else refs(nrefs_or_list - 2, 0)
    out = []
    for op in ops:
        if op == "n":
            out += [(op, a) for a in rs]
        elif op in BIN:
            out += [(op, a, b) for a in rs for b in rs]
        else:
            out += [(op, a, b, c) for a in rs for b in rs for c in rs]
    return out


def pair_requests(n_inputs, n_results, equal):
    rs = ["i%d" % k for k in range(n_inputs)] + ["r%d" % k for k in range(n_results)]
    return [(op, a, b) for op in ("x", "a") for a in rs for b in rs if equal or a != b]


def literal_eval(seq, in_bits):
    """literal semantics of a request list over z3 Bools -> {ref: Bool}"""
    env = {"c0": z3.BoolVal(False), "c1": z3.BoolVal(True)}
    for k, b in enumerate(in_bits):
        env["i%d" % k] = b
    for k, rq in enumerate(seq):
        op = rq[0]
        a = [env[x] for x in rq[1:]]
        if op == "x":
            v = a[0] != a[1]
        elif op == "a":
            v = z3.And(a[0], a[1])
        elif op == "o":
            v = z3.Or(a[0], a[1])
        elif op == "e":
            v = a[0] == a[1]
        elif op == "n":
            v = z3.Not(a[0])
        elif op == "m":
            v = z3.If(a[0], a[1], a[2])
        else:
            v = (a[0] != a[1]) != a[2]
            env["r%d'" % k] = z3.Or(z3.And(a[0], a[1]), z3.And(a[2], a[0] != a[1]))
        env["r%d" % k] = v
    return env


def run_sequence(drv, seq, n_inputs, outputs, cache):
    rq = ";".join(" ".join(r) for r in seq) if seq else "-"
    r = drv.req("builder", "1" if cache else "0", ",".join(["1"] * n_inputs), rq, ",".join(outputs) if outputs else "-")
    return r


def check_batch(drv, batch, n_inputs, st, out):
    """batch: list of (seq, outputs, cache). One solver query for the whole batch; on sat, bisect."""
    inputs = enc.Inputs([1] * n_inputs)
    diffs = []
    meta = []
    for seq, outputs, cache in batch:
        r = run_sequence(drv, seq, n_inputs, outputs, cache)
        out["sequences"] += 1
        if r[0] != "ok":
            out["violations"].append({"key": "builder-%s" % r[0], "text": "builder request sequence %s (cache %s): %s" % (seq, cache, r[:2]),
                                      "replay": {"requests": seq, "outputs": outputs, "cache": cache, "response": r[:3]}})
            continue
        circ = Circuit.parse(r[1])
        if r[2] != "valid":
            out["violations"].append({"key": "builder-invalid-circuit", "text": "built circuit fails validate(): %s for %s" % (r[2], seq),
                                      "replay": {"requests": seq, "outputs": outputs, "cache": cache, "circuit": r[1]}})
            continue
        outs = enc.encode_ssa(circ, inputs)
        lit = literal_eval(seq, inputs.bits)
        want = [z3.BoolVal(False)] * enc.PANIC_BITS
        # panic record of a builder that never pushed a panic: flag 0, reason Overflow(1), zero location
        want = [z3.BoolVal(False)] * 32 + [z3.BoolVal(True)] + [z3.BoolVal(False)] * 128
        want[0:32] = [z3.BoolVal(False)] * 32
        # layout: [has_panicked][32 reason bits = 1][4 x 32 zero]
        want = [z3.BoolVal(False)] + [z3.BoolVal(False)] * 31 + [z3.BoolVal(True)] + [z3.BoolVal(False)] * 128
        want += [lit[o] for o in outputs]
        if len(outs) != len(want):
            out["violations"].append({"key": "builder-output-count", "text": "built circuit has %d outputs, expected %d" % (len(outs), len(want)),
                                      "replay": {"requests": seq, "outputs": outputs, "cache": cache, "circuit": r[1]}})
            continue
        d = [a != b for a, b in zip(outs, want)]
        diffs.append(z3.Or(*d))
        meta.append((seq, outputs, cache, r[1], outs, want))
    if not diffs:
        return
    verdict, model, _, _ = solve.decide([z3.Or(*diffs)] if len(diffs) > 1 else diffs, 30.0, st, use_kissat=False)
    if verdict == "unsat":
        return
    if verdict == "unknown":
        return
    # locate the failing sequences
    for (seq, outputs, cache, ctext, outs, want), dform in zip(meta, diffs):
        v2, m2, _, _ = solve.decide([dform], 30.0, st, use_kissat=False)
        if v2 != "sat":
            continue
        parties = inputs.party_values(m2)
        real = drv.evalc(ctext, parties)
        pairs = tvcore.input_pairs(inputs, parties)
        exp = [int(bool(tvcore.concrete(w, pairs))) for w in want]
        det = {"requests": [list(r) for r in seq], "outputs": outputs, "cache": cache, "circuit": ctext,
               "inputs": tvcore.bits_str(parties), "built_circuit_output": "".join(map(str, real)) if isinstance(real, list) else str(real),
               "literal_semantics": "".join(map(str, exp))}
        if isinstance(real, list) and real != exp:
            out["violations"].append({"key": "builder-function", "text": "builder requests %s (cache=%s): built circuit %s != literal semantics %s on inputs %s" % (
                seq, cache, det["built_circuit_output"][enc.PANIC_BITS:], det["literal_semantics"][enc.PANIC_BITS:], det["inputs"]), "replay": det})
        else:
            out["nonrepro"].append(det)


def outputs_for(seq, n_inputs, rng=None):
    adders = {k for k, r in enumerate(seq) if r[0] == "d"}
    rs = refs(n_inputs, len(seq), adders)
    res = [x for x in rs if x.startswith("r")]
    if rng is None:
        return res + ["i0", "c1"] + res[:1]
    outs = [x for x in res if rng.random() < 0.6]
    outs += [rng.choice(rs) for _ in range(rng.randint(0, 3))]
    if not outs:
        outs = [rng.choice(rs)]
    return outs


def biased_sequence(rng, n_inputs, length):
    """random requests biased to the shapes the rewrite rules look for"""
    seq = []
    adders = set()
    while len(seq) < length:
        k = len(seq)
        rs = refs(n_inputs, k, adders)
        res = [x for x in rs if x.startswith("r")]
        p = rng.random()

        def pick():
            return rng.choice(res) if res and rng.random() < 0.7 else rng.choice(rs)
        if p < 0.12 and res:
            # distributivity shapes: z & (y1 ^ y2) with the products z & y1, z & y2 already requested, and
            # (z & y1) ^ (z & y2) with y1 ^ y2 (and z & (y1 ^ y2)) already requested or not
            j = rng.randrange(k)
            if seq[j][0] in ("x", "a"):
                y1, y2 = seq[j][1:3]
                z = pick()

                def sw(op, a, b):
                    return (op, a, b) if rng.random() < 0.5 else (op, b, a)
                if seq[j][0] == "x":
                    seq.append(sw("a", z, y1))
                    seq.append(sw("a", z, y2))
                    if rng.random() < 0.5:
                        seq.append(sw("a", z, "r%d" % j))
                    else:
                        seq.append(sw("x", "r%d" % k, "r%d" % (k + 1)))
                else:
                    # seq[j] = y1 & y2: request another product sharing y1 or y2, maybe the xor of the others, then xor the products
                    sh, o1 = (y1, y2) if rng.random() < 0.5 else (y2, y1)
                    seq.append(sw("a", sh, z))
                    if rng.random() < 0.6:
                        seq.append(sw("x", o1, z))
                        if rng.random() < 0.6:
                            seq.append(sw("a", sh, "r%d" % (k + 1)))
                    seq.append(sw(rng.choice(["x", "a"]), "r%d" % j, "r%d" % k))
                continue
        if p < 0.3 and res:
            # operand that is an XOR/AND of the other operand
            j = rng.randrange(k)
            if seq[j][0] in ("x", "a") and not isinstance(seq[j], str):
                other = rng.choice(seq[j][1:3])
                op = rng.choice(["x", "a"])
                seq.append((op, "r%d" % j, other) if rng.random() < 0.5 else (op, other, "r%d" % j))
                continue
        if p < 0.45 and res:
            # negation of an earlier result, or a request against a known negation
            j = rng.randrange(k)
            seq.append(("n", "r%d" % j) if rng.random() < 0.5 else ("x", "r%d" % j, "c1"))
            continue
        if p < 0.6 and k >= 2:
            # two earlier gates sharing an operand
            a, b = rng.sample(range(k), 2)
            seq.append((rng.choice(["x", "a"]), "r%d" % a, "r%d" % b))
            continue
        op = rng.choice(["x", "a", "x", "a", "o", "e", "n", "m", "d"])
        if op == "n":
            seq.append((op, pick()))
        elif op in BIN:
            seq.append((op, pick(), pick()))
        else:
            seq.append((op, pick(), pick(), pick()))
            if op == "d":
                adders.add(k)
    return seq


def work(item, drv):
    st = solve.Stats()
    out = {"item": item, "violations": [], "nonrepro": [], "sequences": 0, "programs": 0, "gates": 0, "samples": []}
    kind = item["kind"]
    if kind == "programs":
        for s in item["seeds"]:
            prog = common.make_program(item["profile"], s)
            src = render(prog)
            ra = drv.compile(src, dedup=True)
            rb = drv.compile(src, dedup=False)
            if ra[0] != "ok" or rb[0] != "ok":
                if ra[0] != rb[0]:
                    out["violations"].append({"key": "onoff-status", "text": "compile status differs with de-duplication on/off: %s vs %s" % (ra[0], rb[0]),
                                              "replay": {"source": src}})
                for r in (ra, rb):
                    if r[0] == "ok":
                        drv.drop(r[1])
                continue
            ca, cb = ra[2], rb[2]
            try:
                if list(ca.inputs) != list(cb.inputs) or len(ca.outputs) != len(cb.outputs):
                    out["violations"].append({"key": "onoff-shape", "text": "I/O shape differs with de-duplication on/off", "replay": {"source": src}})
                    continue
                inputs = enc.Inputs(ca.inputs)
                oa, ob = enc.encode_ssa(ca, inputs), enc.encode_ssa(cb, inputs)
                # decoded-level equivalence: the 160 reason/location bits only mean something when the
                # panic flag is set (EvalPanic::parse ignores them otherwise), so they are compared under it
                flag_a, flag_b = oa[0], ob[0]
                rec = [z3.And(flag_a, a != b) for a, b in zip(oa[1:enc.PANIC_BITS], ob[1:enc.PANIC_BITS]) if not a.eq(b)]
                rest = [a != b for a, b in zip([oa[0]] + oa[enc.PANIC_BITS:], [ob[0]] + ob[enc.PANIC_BITS:]) if not a.eq(b)]
                if rec or rest:
                    verdict, model, _, _ = solve.decide([z3.Or(*(rec + rest))], item["cap"], st)
                else:
                    verdict, model = "unsat", None
                    st.queries += 1
                    st.unsat += 1
                out["programs"] += 1
                out["gates"] += len(ca.gates) + len(cb.gates)
                if len(out["samples"]) < 1 and len(ca.gates) > 30:
                    out["samples"].append({"kind": "program on/off", "gates_on": len(ca.gates), "gates_off": len(cb.gates), "verdict": verdict,
                                           "source": src[:1200]})
                if verdict == "sat":
                    parties = inputs.party_values(model)
                    a, b = drv.eval(ra[1], parties), drv.eval(rb[1], parties)
                    det = {"source": src, "inputs": tvcore.bits_str(parties), "output_dedup_on": "".join(map(str, a)), "output_dedup_off": "".join(map(str, b))}
                    same = a[0] == b[0] and a[enc.PANIC_BITS:] == b[enc.PANIC_BITS:] and (not a[0] or a[:enc.PANIC_BITS] == b[:enc.PANIC_BITS])
                    if not same:
                        out["violations"].append({"key": "onoff-function", "text": "circuits compiled with optimize_duplicate_gates on/off differ on inputs %s" % det["inputs"], "replay": det})
                    else:
                        out["nonrepro"].append(det)
            finally:
                drv.drop(ra[1])
                drv.drop(rb[1])
    elif kind in ("exhaustive2", "exhaustive3"):
        n = item["inputs"]
        first = tuple(item["first"])
        adders = {0} if first[0] == "d" else set()
        batch = []
        ops = ("x", "a", "o", "e", "n", "m", "d") if kind == "exhaustive2" else ("x", "a", "n")
        seqs = [[first]]
        for second in all_requests(refs(n, 1, adders), ops=ops):
            seqs.append([first, second])
            if kind == "exhaustive3":
                for third in all_requests(refs(n, 2, set()), ops=ops):
                    seqs.append([first, second, third])
        for seq in seqs:
            for cache in (True, False):
                batch.append((seq, outputs_for(seq, n), cache))
            if len(batch) >= 200:
                check_batch(drv, batch, n, st, out)
                batch = []
        if batch:
            check_batch(drv, batch, n, st, out)
        out["samples"].append({"kind": kind, "first_request": list(first), "sequences": len(seqs) * 2})
    elif kind == "exhaustive3n":
        n = item["inputs"]
        first = tuple(item["first"])
        ins = ["i%d" % k for k in range(n)]
        batch = []
        count = 0
        for second in all_requests(ins + ["r0"], ops=("x", "a", "n")):
            for third in all_requests(ins + ["r0", "r1"], ops=("x", "a", "n")):
                seq = [first, second, third]
                count += 1
                for cache in (True, False):
                    batch.append((seq, ["r0", "r1", "r2"], cache))
                if len(batch) >= 400:
                    check_batch(drv, batch, n, st, out)
                    batch = []
        if batch:
            check_batch(drv, batch, n, st, out)
        out["samples"].append({"kind": kind, "first_request": list(first), "sequences": count * 2})
    elif kind == "exhaustive4":
        n = item["inputs"]
        first, second = tuple(item["first"]), tuple(item["second"])
        batch = []
        count = 0
        for third in pair_requests(n, 2, item["equal"]):
            for fourth in pair_requests(n, 3, item["equal"]):
                seq = [first, second, third, fourth]
                count += 1
                for cache in (True, False):
                    batch.append((seq, ["r0", "r1", "r2", "r3"], cache))
                if len(batch) >= 400:
                    check_batch(drv, batch, n, st, out)
                    batch = []
        if batch:
            check_batch(drv, batch, n, st, out)
        out["samples"].append({"kind": kind, "first_requests": [list(first), list(second)], "sequences": count * 2})
    else:
        rng = random.Random(item["seed"])
        n = item["inputs"]
        batch = []
        for _ in range(item["count"]):
            seq = biased_sequence(rng, n, rng.randint(3, 40))
            for cache in (True, False):
                batch.append((seq, outputs_for(seq, n, rng), cache))
        check_batch(drv, batch, n, st, out)
        out["samples"].append({"kind": "random biased sequence", "requests": [" ".join(r) for r in batch[0][0]][:40], "outputs": batch[0][1]})
    out["stats"] = st.as_dict()
    return out


def summarize(ctx, items, results):
    st = solve.Stats()
    viol, errors, samples = [], [], []
    programs = sequences = gates = 0
    kinds = {}
    for r in results:
        if "error" in r:
            errors.append("worker failure on %s: %s %s" % (str(r["item"])[:100], r["error"], r.get("trace", "")[-400:]))
            continue
        sd = r["stats"]
        st.queries += sd["queries"]; st.unsat += sd["unsat"]; st.sat += sd["sat"]; st.unknown += sd["inconclusive"]
        st.z3_s += sd["z3_seconds"]
        viol += r["violations"]
        programs += r["programs"]; sequences += r["sequences"]; gates += r["gates"]
        kinds[r["item"]["kind"]] = kinds.get(r["item"]["kind"], 0) + 1
        for d in r["nonrepro"]:
            errors.append("counterexample did not reproduce natively: %s" % str(d)[:300])
        if len(samples) < 6 and r["samples"] and sum(1 for s in samples if s.get("kind") == r["samples"][0].get("kind")) < 2:
            samples += r["samples"][:1]
    cov = {"programs": programs + sequences, "disagreements_checked": st.queries, "samples": samples,
           "explanation": "(a) every generated program is compiled with optimize_duplicate_gates on and off and the two circuits are mitered over all 161 panic bits "
                          "and all value bits for ALL inputs; (b) request sequences (xor/and/not/or/eq/mux/adder over earlier wires, the two constants and the inputs) are executed "
                          "by the real CircuitBuilder + build() through the verif_hooks wrapper and the built circuit is compared for all inputs with the literal semantics of the "
                          "same requests, for every returned wire listed as an output (including inputs, constants, repeats; unlisted results are dead). Sequences are batched 200-400 per solver query.",
           "compiled_programs_on_off": programs, "builder_sequences": sequences, "gates_encoded": gates, "work_items": kinds, "solver": st.as_dict(),
           "bounds": {"exhaustive": "all sequences of <= 2 requests of every kind over 2 inputs, cache on and off (thorough: also all length-3 xor/and/not sequences); all sequences of 3 xor/and/not requests over 3 inputs with inputs or earlier results as operands (41580 x cache on/off); all sequences of 4 xor/and requests over 3 inputs that start with op(i0,i1) and take inputs or earlier results as ordered operand pairs (quick: distinct operands, 115k sequences x cache on/off; thorough: equal operands too, 230k x 2)",
                      "random": "seeded sequences of 3..40 requests over 3 inputs biased to rewrite-rule shapes (operand that is a gate over the other operand, known negations, gates sharing an operand, distributivity shapes with the products / the xor already requested)"},
           "functions_encoded": ["circuit.rs CircuitBuilder::{push_xor,push_and,push_not,push_or,push_eq,push_mux,push_adder,build,remove_unused_gates}", "compile_with_options(optimize_duplicate_gates = true | false)"]}
    return {"violations": viol, "errors": errors, "inconclusive": st.unknown, "inconclusive_limit": max(2, st.queries // 50), "coverage": cov,
            "level": "translation_validation",
            "assumptions": ["the HISTORY dimension (which requests are made) is enumerated / seeded, only the circuit inputs are symbolic: the builder's state lives in HashMaps that CBMC cannot execute (DESIGN section 3)",
                            "z3 decides each miter"],
            "headline": "%d programs on/off, %d builder sequences, %d queries (%d unsat, %d sat, %d undecided)" % (programs, sequences, st.queries, st.unsat, st.sat, st.unknown)}
