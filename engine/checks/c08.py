"""C08 -- match exhaustiveness verdicts are exact and the first matching arm decides."""
import random, re
import z3
import common, enc, ref, solve, tvcore, patgen
from lang import *

E_A = TEnum("Ea", [("A", []), ("B", [U8]), ("C", [I8, BOOL])])
E_B = TEnum("Eb", [("P", [BOOL]), ("Q", [])])
E_C = TEnum("Ec", [("X", []), ("Y", []), ("Z", [])])
E_D = TEnum("Ed", [("M", [U8, TTup([BOOL, I8])]), ("N", [U16])])
S_A = TStruct("Sa", [("a", U8), ("b", BOOL), ("c", I8)])
S_B = TStruct("Sb", [("e", E_B), ("n", U8)])
E_E = TEnum("Ee", [("K", [S_A]), ("L", [])])

SCRUT_QUICK = [BOOL, U8, I8, U16, I16, U32, I32, U64, I64, USIZE, E_A, E_B, E_C, TTup([BOOL, U8]), TTup([I8, BOOL, U8]),
               TTup([TTup([U8, BOOL]), I8]), S_A, S_B, E_D, TTup([E_B, E_C]), TTup([U8, U8])]
SCRUT_THOROUGH = SCRUT_QUICK + [E_E, TTup([E_A, E_A]), TTup([I16, I16])]


def defs_for(ty, structs, enums):
    if isinstance(ty, TStruct):
        for _, t in ty.fields:
            defs_for(t, structs, enums)
        if ty not in structs:
            structs.append(ty)
    elif isinstance(ty, TEnum):
        for _, fs in ty.variants:
            for t in fs:
                defs_for(t, structs, enums)
        if ty not in enums:
            enums.append(ty)
    elif isinstance(ty, TTup):
        for t in ty.elems:
            defs_for(t, structs, enums)
    elif is_arr(ty):
        defs_for(ty.elem, structs, enums)


def arm_body(idx, pat, sty):
    e = Lit(U8, idx + 1)
    for name, t in patgen.bound_vars(pat, sty, []):
        if isinstance(t, (TBool, TInt)):
            e = Bin("^", e, Cast(Var(name, t), U8))
    return e


def build_program(sty, arms):
    structs, enums = [], []
    defs_for(sty, structs, enums)
    body = Match(Var("x", sty), [(p, arm_body(i, p, sty)) for i, p in enumerate(arms)], U8)
    # a second parameter keeps main from being the "single array" form and gives the circuit an input bit
    return Program([FnDef("main", [("x", sty, False), ("k", BOOL, False)], U8, Block([], body), pub=True)], structs, enums)


def plan(ctx):
    tier, seed = ctx["tier"], ctx["seed"]
    n = 3000 if tier == "quick" else 40000
    per = 20
    return [{"seeds": [seed * 100000 + i + k for k in range(per)], "tier": tier, "cap": 20.0 if tier == "quick" else 60.0}
            for i in range(0, n, per)]


def sym_value(ty, name="x"):
    n = size_of(ty)
    xb = z3.BitVec(name, n)
    assume = []
    v = ref.decode(ty, xb, assume)
    return xb, v, assume


def matches_any(it, arms, sty, v):
    ms = []
    for p in arms:
        env = ref.Env()
        ms.append(it.pmatch(p, sty, v, env))
    return ms


NON_EXH = "PatternsAreNotExhaustive"


def check_one(drv, seed, tier, cap, st, out):
    rng = random.Random(seed)
    pool = SCRUT_QUICK if tier == "quick" else SCRUT_THOROUGH
    sty = rng.choice(pool)
    pg = patgen.PatGen(rng)
    arms = pg.arms(sty)
    prog = build_program(sty, arms)
    src = render(prog)
    it = ref.Interp(prog)
    xb, v, assume = sym_value(sty)
    ms = matches_any(it, arms, sty, v)
    verdict, model, _, _ = solve.decide(assume + [z3.Not(z3.Or(*ms))], cap, st)
    if verdict == "unknown":
        return
    exhaustive = verdict == "unsat"
    r = drv.check(src)
    out["arm_lists"] += 1
    out["exhaustive" if exhaustive else "non_exhaustive"] += 1
    rep = {"source": src, "scrutinee_type": sty.src(), "solver_says_exhaustive": exhaustive}
    if not exhaustive:
        xv = model.eval(xb, model_completion=True).as_long()
        rep["uncovered_value_bits"] = format(xv, "0%db" % size_of(sty))
    signed_no_wild = None
    if r[0] == "panic":
        out["violations"].append({"key": "checker-panic", "text": "type checker panicked on a match over %s: %s" % (sty.src(), r[1][:200]), "replay": rep})
        return
    if r[0] == "ok":
        if not exhaustive:
            out["violations"].append({"key": "accepted-non-exhaustive",
                                      "text": "match over %s accepted although no arm matches the value with bits %s" % (sty.src(), rep["uncovered_value_bits"]),
                                      "replay": rep})
            return
        # accepted and exhaustive: the first matching arm must decide, for every scrutinee value
        res = tvcore.analyze(drv, prog, dedup=True, cap=cap, stats=st, rng=rng, queries=("value", "panic"), vectors=2, src=src)
        out["compiled"] += 1
        if res["status"] != "ok":
            out["violations"].append({"key": "accepted-program-%s" % res["status"], "text": "accepted match does not compile: %s %s" % (res["status"], res.get("panic") or res.get("errors")), "replay": rep})
        for f in res["findings"]:
            d = f.as_dict()
            if f.kind == "disagreement":
                out["violations"].append({"key": "wrong-arm", "text": "match over %s: circuit result differs from the first matching arm on inputs %s (circuit %s, reference %s)" % (
                    sty.src(), d["inputs"], d["real_value_bits"], d["ref_value_bits"]), "replay": {**rep, **d}})
            elif f.kind == "non_reproducing":
                out["nonrepro"].append(d)
        if len(out["samples"]) < 1:
            out["samples"].append({"scrutinee": sty.src(), "arms": len(arms), "solver": "exhaustive", "checker": "accepted", "source": src})
        return
    # rejected
    kinds = [k for _, _, k in r[2]]
    if r[1] != "type" or any(k != NON_EXH for k in kinds):
        out["other_rejects"].append({"source": src, "errors": str(r[2])[:300]})
        return
    if exhaustive:
        out["violations"].append({"key": "rejected-exhaustive" + ("-signed" if has_signed(sty) else ""),
                                  "text": "match over %s rejected as non-exhaustive although its arms cover every value; reported missing: %s" % (
                                      sty.src(), witness_lines(r[2][0][0])), "replay": rep})
        return
    # rejected and really non-exhaustive: every reported missing case must denote >= 1 value and only unmatched values
    for w in witness_lines(r[2][0][0]):
        out["witnesses"] += 1
        try:
            wp = patgen.parse_witness(w, sty)
        except patgen.WitnessError as e:
            out["violations"].append({"key": "witness-unreadable", "text": "reported missing case %r is not a pattern of %s: %s" % (w, sty.src(), e), "replay": rep})
            continue
        wm = it.pmatch(wp, sty, v, ref.Env())
        v1, m1, _, _ = solve.decide(assume + [wm], cap, st)
        if v1 == "unsat":
            out["violations"].append({"key": "witness-empty", "text": "reported missing case %r denotes no value of %s" % (w, sty.src()), "replay": rep})
        v2, m2, _, _ = solve.decide(assume + [wm, z3.Or(*ms)], cap, st)
        if v2 == "sat":
            xv = m2.eval(xb, model_completion=True).as_long()
            out["violations"].append({"key": "witness-covers-matched-value" + ("-signed" if has_signed(sty) else ""),
                                      "text": "reported missing case %r includes the value with bits %s, which an arm matches (match over %s)" % (
                                          w, format(xv, "0%db" % size_of(sty)), sty.src()), "replay": {**rep, "witness": w}})
    if len(out["samples"]) < 2:
        out["samples"].append({"scrutinee": sty.src(), "arms": len(arms), "solver": "non-exhaustive", "checker": "rejected", "witnesses": witness_lines(r[2][0][0]), "source": src})


def has_signed(ty):
    if isinstance(ty, TInt):
        return ty.signed
    if isinstance(ty, TTup):
        return any(has_signed(t) for t in ty.elems)
    if isinstance(ty, TStruct):
        return any(has_signed(t) for _, t in ty.fields)
    if isinstance(ty, TEnum):
        return any(has_signed(t) for _, fs in ty.variants for t in fs)
    return False


def witness_lines(msg):
    lines = msg.split("\n")
    return [l.strip() for l in lines[1:] if l.strip() and not l.strip().startswith("...")]


def work(item, drv):
    st = solve.Stats()
    out = {"item": item, "violations": [], "nonrepro": [], "arm_lists": 0, "exhaustive": 0, "non_exhaustive": 0, "compiled": 0,
           "witnesses": 0, "other_rejects": [], "samples": []}
    for s in item["seeds"]:
        check_one(drv, s, item["tier"], item["cap"], st, out)
    out["stats"] = st.as_dict()
    return out


def summarize(ctx, items, results):
    st = solve.Stats()
    viol, errors, samples, other = [], [], [], []
    tot = {"arm_lists": 0, "exhaustive": 0, "non_exhaustive": 0, "compiled": 0, "witnesses": 0}
    for r in results:
        if "error" in r:
            errors.append("worker failure on %s: %s %s" % (str(r["item"])[:100], r["error"], r.get("trace", "")[-500:]))
            continue
        sd = r["stats"]
        st.queries += sd["queries"]; st.unsat += sd["unsat"]; st.sat += sd["sat"]; st.unknown += sd["inconclusive"]; st.z3_s += sd["z3_seconds"]; st.kissat_s += sd["kissat_seconds"]
        viol += r["violations"]
        other += r["other_rejects"]
        for k in tot:
            tot[k] += r[k]
        for d in r["nonrepro"]:
            errors.append("counterexample did not reproduce natively: %s" % str(d)[:300])
        if len(samples) < 4:
            samples += r["samples"][:1]
    if len(other) * 20 > max(1, tot["arm_lists"]):
        errors.append("%d generated matches were rejected for reasons other than exhaustiveness: %s" % (len(other), other[:2]))
    cov = {"programs": tot["arm_lists"], "disagreements_checked": st.queries, "samples": samples or [{"note": "none"}],
           "explanation": "Per arm list: (1) z3 decides whether some value of the scrutinee type (all bit patterns that encode a value) matches no arm; the real checker's verdict must agree "
                          "(accepted <=> unsat). (2) accepted lists are compiled and the circuit must return, for ALL scrutinee values, the result of the first arm whose pattern matches, with its bindings "
                          "(arm i returns i+1 xor the bound scalars). (3) for rejected lists every reported missing case is parsed back and must match at least one value (sat) and no value that an arm matches (unsat).",
           "arm_lists": tot["arm_lists"], "exhaustive_lists": tot["exhaustive"], "non_exhaustive_lists": tot["non_exhaustive"],
           "compiled": tot["compiled"], "witnesses_checked": tot["witnesses"],
           "rejected_for_other_reasons": len(other), "solver": st.as_dict(),
           "bounds": "scrutinee types: bool, u8/i8/u16/i16/u32/i32 (thorough: u64/i64/usize), enums with unit/payload variants, tuples, structs with `..`, nesting <= 2; <= 8 arms; arm lists built as exact covers and perturbed at their boundaries",
           "functions_encoded": ["check.rs check_exhaustiveness/usefulness/specialize/split_* (verdict and witnesses, run natively)", "compile.rs Match lowering + TypedPattern::compile (circuit encoded)"]}
    return {"violations": viol, "errors": errors, "inconclusive": st.unknown, "inconclusive_limit": max(2, st.queries // 50), "coverage": cov,
            "level": "translation_validation",
            "assumptions": ["pattern semantics matches(p, v) written from the guide (literals, inclusive / exclusive ranges, tuple, struct with `..`, enum, nested, identifiers and `_` match everything)",
                            "arm lists are seeded (space enumerated, not symbolic); scrutinee values are symbolic"],
            "headline": "%d arm lists (%d exhaustive, %d not), %d compiled, %d witnesses, %d queries (%d undecided)" % (
                tot["arm_lists"], tot["exhaustive"], tot["non_exhaustive"], tot["compiled"], tot["witnesses"], st.queries, st.unknown)}
