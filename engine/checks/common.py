"""Shared machinery of the translation-validation checks (C01, C02, C04, C14, ...)."""
import random, time
import z3
import enc, gen, ref, solve, tvcore
from lang import *

PROFILES = {
    # general programs: every construct, small integer types
    "general": dict(),
    # several potentially failing sites per program
    "panic": dict(panic_bias=1.0, mutation=0.4, depth=3, stmts=4, int_types=[U8, I8, U16, I16, USIZE]),
    # mutation heavy: let mut / assignment through accessors / loops / shadowing, all live variables returned
    "mutation": dict(mutation=1.0, ret_all_vars=True, stmts=5, panic_bias=0.1, int_types=[U8, I8, U16, I16, USIZE]),
    # assignments through several input-dependent indices whose later index expressions and values can fail themselves
    "assignorder": dict(assign_focus=0.8, panic_bias=0.6, mutation=1.5, ret_all_vars=True, stmts=4, structs=False, enums=False,
                        int_types=[U8, I8, U16, USIZE]),
    # wider integer types (thorough tiers); `* / %` only with a literal operand above 8 bits
    "wide": dict(int_types=[U8, I8, U16, I16, U32, I32, U64, I64, USIZE], const_muldiv_bits=32),
    "widepanic": dict(int_types=[U8, I8, U16, I16, U32, I32, U64, I64, USIZE], const_muldiv_bits=32, panic_bias=1.0),
    "widemutation": dict(int_types=[U8, I8, U16, I16, U32, I32, USIZE], const_muldiv_bits=16, mutation=1.0,
                         ret_all_vars=True, stmts=5),
}


def zerolen_program(k):
    """fixed templates around arrays of length 0 (as local values): reads, writes and loops, each followed or
    preceded by another operation that can fail, so that the order of the failures is visible"""
    i, d = Var("i", USIZE), Var("d", U8)
    r = Var("r", U8)
    div = Assign("r", U8, [], Bin("/", Lit(U8, 10), d), "+")
    pre = [LetMut("r", Lit(U8, 1))]
    A = lambda et, e: (Var("a", TArr(et, 0)), ArrRep(e, 0))
    T2 = TTup([U8, BOOL])
    forms = []
    a, lit = A(U8, d)
    forms.append([Let(PVar("a"), lit), Let(PVar("v"), Index(a, i)), div])
    forms.append([Let(PVar("a"), lit), Let(PVar("v"), Index(a, Lit(USIZE, 0))), div])
    forms.append([Let(PVar("a"), lit), div, Let(PVar("v"), Index(a, Lit(USIZE, 0)))])
    forms.append([Let(PVar("a"), lit), Let(PVar("v"), Index(a, Cast(Bin("/", Lit(U8, 10), d), USIZE))), div])
    forms.append([LetMut("a", lit), Assign("a", a.ty, [("idx", i)], d), div])
    forms.append([LetMut("a", lit), Assign("a", a.ty, [("idx", Lit(USIZE, 0))], d, "+"), div])
    forms.append([LetMut("a", lit), div, Assign("a", a.ty, [("idx", Lit(USIZE, 0))], d)])
    forms.append([For(PVar("e"), lit, [Assign("r", U8, [], Var("e", U8), "/")]), div])
    forms.append([Let(PVar("a"), lit), For(PVar("e"), a, [Assign("r", U8, [], Bin("/", Lit(U8, 1), Lit(U8, 0)), "+")]), div])
    forms.append([Let(PVar("a"), lit), ExprStmt(If(Bin(">", d, Lit(U8, 3)), Block([Let(PVar("v"), Index(a, Lit(USIZE, 0)))], None), None)), div])
    a2, lit2 = A(T2, TupLit([d, Lit(BOOL, 1)]))
    forms.append([Let(PVar("a"), lit2), Let(PVar("v"), TupGet(Index(a2, i), 0)), div])
    forms.append([LetMut("a", lit2), Assign("a", a2.ty, [("idx", Lit(USIZE, 0)), ("tup", 0)], d), div])
    a3, lit3 = A(TArr(U8, 2), ArrLit([d, d]))
    forms.append([Let(PVar("a"), lit3), Let(PVar("v"), Index(Index(a3, Lit(USIZE, 0)), i)), div])
    forms.append([LetMut("a", lit3), Assign("a", a3.ty, [("idx", i), ("idx", Lit(USIZE, 1))], d), div])
    stmts = pre + forms[k % len(forms)]
    return Program([FnDef("main", [("i", USIZE, False), ("d", U8, False)], U8, Block(stmts, r), pub=True)])


ZEROLEN_FORMS = 14


def make_program(profile, seed):
    if profile == "zerolen":
        return zerolen_program(seed)
    return gen.generate(seed, gen.Cfg(**PROFILES[profile]))


def sample_of(res, item):
    src = res["src"]
    return {"profile": item.get("profile"), "seed": item.get("seed"), "gates": res.get("gates"),
            "panic_sites": res.get("sites"), "verdicts": res.get("verdicts"),
            "source": src if len(src) < 1500 else src[:1500] + "..."}


def tv_item(item, drv):
    """item: {profile, seed, queries, dedups, cap, reg}. Compile the generated program with each
    de-duplication setting, compare with the reference, optionally check the register form."""
    prog = make_program(item["profile"], item["seed"])
    st = solve.Stats()
    rng = random.Random(item["seed"] * 7919 + 13)
    out = {"item": item, "configs": [], "violations": [], "nonrepro": [], "status": None}
    src = render(prog)
    ssa_outs = {}
    for dedup in item.get("dedups", (True,)):
        res = tvcore.analyze(drv, prog, dedup=dedup, cap=item.get("cap", 20.0), stats=st, rng=rng,
                             queries=item["queries"], vectors=item.get("vectors", 3), src=src,
                             keep=bool(item.get("reg")))
        cfg = {"dedup": dedup, "status": res["status"], "verdicts": res["verdicts"], "gates": res["gates"],
               "sites": res.get("sites"), "vectors": res.get("vectors_validated", 0)}
        out["configs"].append(cfg)
        if out["status"] is None:
            out["status"] = res["status"]
            out["sample"] = sample_of(res, item)
        if res["status"] in ("compiler_panic", "shape"):
            out["violations"].append({"key": "accepted-program-%s" % res["status"],
                                      "text": "accepted program: %s %s" % (res["status"], res.get("panic") or [f.as_dict() for f in res["findings"]]),
                                      "replay": {"source": src, "dedup": dedup, "status": res["status"],
                                                 "detail": res.get("panic") or [f.as_dict() for f in res["findings"]]}})
        if res["status"] == "rejected":
            out["rejected"] = res.get("errors")
        for f in res["findings"]:
            d = f.as_dict()
            if f.kind == "disagreement":
                out["violations"].append({"key": "program-%s" % d["query"],
                                          "text": "circuit and source semantics disagree (%s query) on inputs %s: circuit panic=%s %s value=%s, reference panic=%s %s value=%s" % (
                                              d["query"], d["inputs"], d["real_panicked"], d["real_record"], d["real_value_bits"],
                                              d["ref_panicked"], d["ref_record"], d["ref_value_bits"]),
                                          "replay": {"source": src, **d}})
            elif f.kind == "non_reproducing":
                out["nonrepro"].append(d)
        if res["status"] == "ok" and item.get("reg"):
            # register form of this configuration: same function, for all inputs
            cid = res["cid"]
            try:
                verdict, v2, n2, info = tvcore.register_check(drv, cid, res["_circ"], res["_inputs"], res["_outs"],
                                                              item.get("cap", 20.0), st, src=src, dedup=dedup)
                cfg["register"] = verdict
                cfg["register_info"] = info
                out["violations"] += v2
                out["nonrepro"] += n2
            finally:
                drv.drop(cid)
        elif item.get("reg") and "cid" in res:
            drv.drop(res["cid"])
    out["stats"] = st.as_dict()
    return out


def summarize_tv(ctx, items, results, prop, what, assumptions, extra_cov=None, query_names=None):
    st = solve.Stats()
    viol, errors, nonrepro = [], [], []
    status = {}
    samples = []
    programs = 0
    configs = 0
    vectors = 0
    gates_total = 0
    sites_total = 0
    nontrivial = 0
    rejected = []
    for r in results:
        if "error" in r:
            errors.append("worker failure on %s: %s" % (r["item"], r["error"]))
            continue
        s = r["status"]
        status[s] = status.get(s, 0) + 1
        for k, v in r["stats"].items():
            pass
        sd = r["stats"]
        st.queries += sd["queries"]
        st.unsat += sd["unsat"]
        st.sat += sd["sat"]
        st.unknown += sd["inconclusive"]
        st.z3_s += sd["z3_seconds"]
        st.kissat_s += sd["kissat_seconds"]
        st.kissat_runs += sd["kissat_runs"]
        viol += r["violations"]
        for d in r["nonrepro"]:
            nonrepro.append(d)
        if s == "ok":
            programs += 1
            for c in r["configs"]:
                configs += 1
                vectors += c.get("vectors", 0)
                gates_total += c.get("gates", 0)
            sites_total += r["configs"][0].get("sites") or 0
            if r["configs"][0].get("gates", 0) > 2:
                nontrivial += 1
            if len(samples) < 3 and r["configs"][0].get("gates", 0) > 50:
                samples.append(r["sample"])
        elif s == "rejected":
            rejected.append({"seed": r["item"].get("seed"), "errors": str(r.get("rejected"))[:300]})
    for d in nonrepro:
        errors.append("counterexample did not reproduce natively (encoding or reference bug): %s" % str(d)[:400])
    if not samples and results:
        samples = [r.get("sample") for r in results if r.get("sample")][:2]
    cov = {
        "programs": programs,
        "disagreements_checked": st.queries,
        "samples": samples or [{"note": "no program compiled"}],
        "explanation": what,
        "program_configurations": configs,
        "nontrivial_programs": nontrivial,
        "status_counts": status,
        "rejected_by_front_end": rejected[:5],
        "gates_encoded": gates_total,
        "panic_sites_in_reference": sites_total,
        "encoder_validation_vectors": vectors,
        "solver": st.as_dict(),
        "functions_encoded": ["garble_lang::compile_with_options -> circuit::Circuit (gates emitted by compile.rs / circuit.rs)",
                              "circuit::Circuit::eval (replay + encoder validation)"],
    }
    if extra_cov:
        cov.update(extra_cov)
    limit = max(2, st.queries // 50)
    if programs == 0:
        errors.append("no program of the pool compiled: nothing was checked")
    if rejected and len(rejected) * 10 > max(1, len(results)):
        errors.append("%d of %d generated programs were rejected by the front end: %s" % (len(rejected), len(results), rejected[:2]))
    return {"violations": viol, "errors": errors, "inconclusive": st.unknown, "inconclusive_limit": limit,
            "coverage": cov, "assumptions": assumptions, "level": "translation_validation",
            "headline": "%d programs, %d configurations, %d queries (%d unsat, %d sat, %d undecided)" % (
                programs, configs, st.queries, st.unsat, st.sat, st.unknown)}


BASE_ASSUMPTIONS = [
    "z3 (python API, 4.x/5.x) decides each query; kissat decides the bit-blasted CNF when z3 hits the cap",
    "reference semantics engine/tv/ref.py: Rust-like by-value semantics, checked fixed-width arithmetic, usize = 32 bits, left-to-right evaluation, first failure wins",
    "arguments are encodings of values of the parameter types (enum tags in range, zero padding)",
    "programs are drawn from the seeded generator engine/tv/gen.py (bounded depth/size, stated profile); programs outside that family are not covered",
    "MIN % -1 on signed operands is excluded from every query (either outcome acceptable)",
    "when the index part and the value part of ONE assignment statement both fail, only 'panic iff' is compared (the guide fixes no order)",
]
