"""C17 -- ill-typed programs are rejected (claimed for ONE rule: refutable patterns in `let` / `for`)."""
import random
import z3
import common, enc, ref, solve, tvcore, patgen
from lang import *
import c08


def plan(ctx):
    tier, seed = ctx["tier"], ctx["seed"]
    n = 3000 if tier == "quick" else 30000
    per = 30
    return [{"seeds": [seed * 100000 + 3000000 + i + k for k in range(per)], "tier": tier, "cap": 20.0} for i in range(0, n, per)]


def single_pattern(pg, sty):
    """one pattern: sometimes an irrefutable destructuring, sometimes an arm of a cover (refutable unless the cover is trivial)"""
    r = pg.rng.random()
    if r < 0.35:
        return irrefutable(pg, sty, 2)
    arms = pg.cover(sty)
    p = pg.rng.choice(arms)
    if pg.chance(0.2):
        pg.shift(p)
    return p


def irrefutable(pg, ty, d):
    if d > 0 and pg.chance(0.7):
        if isinstance(ty, TTup):
            return PTup([irrefutable(pg, t, d - 1) for t in ty.elems])
        if isinstance(ty, TStruct):
            fs = [(f, irrefutable(pg, t, d - 1)) for f, t in ty.fields]
            if len(fs) > 1 and pg.chance(0.4):
                return PStruct(ty, fs[:pg.rng.randint(1, len(fs) - 1)], rest=True)
            return PStruct(ty, fs)
        if isinstance(ty, TInt) and pg.chance(0.3):
            return PRange(ty, ty.min, ty.max, True)  # the full range is irrefutable
    return pg.wild()


def build(kind, sty, pat):
    structs, enums = [], []
    c08.defs_for(sty, structs, enums)
    body_val = c08.arm_body(0, pat, sty)
    x = Var("x", sty)
    if kind == "let":
        stmts = [Let(pat, x)]
        e = body_val
    else:
        stmts = [LetMut("acc", Lit(U8, 0)), For(pat, ArrLit([x, x]), [Assign("acc", U8, [], body_val, "^")])]
        e = Var("acc", U8)
    return Program([FnDef("main", [("x", sty, False), ("k", BOOL, False)], U8, Block(stmts, e), pub=True)], structs, enums)


def check_one(drv, seed, tier, cap, st, out):
    rng = random.Random(seed)
    pool = c08.SCRUT_QUICK if tier == "quick" else c08.SCRUT_THOROUGH
    sty = rng.choice(pool)
    pg = patgen.PatGen(rng)
    pat = single_pattern(pg, sty)
    kind = rng.choice(["let", "for"])
    prog = build(kind, sty, pat)
    src = render(prog)
    it = ref.Interp(prog)
    xb, v, assume = c08.sym_value(sty)
    m = it.pmatch(pat, sty, v, ref.Env())
    verdict, model, _, _ = solve.decide(assume + [z3.Not(m)], cap, st)
    if verdict == "unknown":
        return
    refutable = verdict == "sat"
    out["patterns"] += 1
    out["refutable" if refutable else "irrefutable"] += 1
    rep = {"source": src, "type": sty.src(), "statement": kind, "solver_says_refutable": refutable}
    if refutable:
        rep["refuting_value_bits"] = format(model.eval(xb, model_completion=True).as_long(), "0%db" % size_of(sty))
    r = drv.check(src)
    if r[0] == "panic":
        out["violations"].append({"key": "checker-panic", "text": "type checker panicked on a %s pattern over %s: %s" % (kind, sty.src(), r[1][:200]), "replay": rep})
        return
    if r[0] == "ok":
        if refutable:
            out["violations"].append({"key": "refutable-%s-accepted" % kind,
                                      "text": "`%s` with a refutable pattern over %s is accepted: the value with bits %s does not match it" % (kind, sty.src(), rep["refuting_value_bits"]),
                                      "replay": rep})
        else:
            # accepted irrefutable pattern: bindings must be right for all values
            res = tvcore.analyze(drv, prog, dedup=True, cap=cap, stats=st, rng=rng, queries=("value",), vectors=2, src=src)
            out["compiled"] += 1
            for f in res["findings"]:
                d = f.as_dict()
                if f.kind == "disagreement":
                    out["violations"].append({"key": "wrong-binding", "text": "irrefutable %s pattern over %s binds wrong values on inputs %s" % (kind, sty.src(), d["inputs"]), "replay": {**rep, **d}})
                elif f.kind == "non_reproducing":
                    out["nonrepro"].append(d)
        if len(out["samples"]) < 1:
            out["samples"].append({"statement": kind, "type": sty.src(), "solver": "refutable" if refutable else "irrefutable", "checker": "accepted", "source": src})
        return
    kinds = [k for _, _, k in r[2]]
    if r[1] == "type" and all(k == c08.NON_EXH for k in kinds):
        if not refutable:
            out["violations"].append({"key": "irrefutable-rejected", "text": "`%s` with an irrefutable pattern over %s is rejected: %s" % (kind, sty.src(), str(r[2])[:200]), "replay": rep})
        elif len(out["samples"]) < 2:
            out["samples"].append({"statement": kind, "type": sty.src(), "solver": "refutable", "checker": "rejected", "source": src})
        return
    out["other_rejects"].append({"source": src, "errors": str(r[2])[:300]})


def work(item, drv):
    st = solve.Stats()
    out = {"item": item, "violations": [], "nonrepro": [], "patterns": 0, "refutable": 0, "irrefutable": 0, "compiled": 0, "other_rejects": [], "samples": []}
    for s in item["seeds"]:
        check_one(drv, s, item["tier"], item["cap"], st, out)
    out["stats"] = st.as_dict()
    return out


def summarize(ctx, items, results):
    st = solve.Stats()
    viol, errors, samples, other = [], [], [], []
    tot = {"patterns": 0, "refutable": 0, "irrefutable": 0, "compiled": 0}
    for r in results:
        if "error" in r:
            errors.append("worker failure on %s: %s %s" % (str(r["item"])[:100], r["error"], r.get("trace", "")[-500:]))
            continue
        sd = r["stats"]
        st.queries += sd["queries"]; st.unsat += sd["unsat"]; st.sat += sd["sat"]; st.unknown += sd["inconclusive"]; st.z3_s += sd["z3_seconds"]
        viol += r["violations"]
        other += r["other_rejects"]
        for k in tot:
            tot[k] += r[k]
        for d in r["nonrepro"]:
            errors.append("counterexample did not reproduce natively: %s" % str(d)[:300])
        if len(samples) < 4:
            samples += r["samples"][:1]
    if len(other) * 20 > max(1, tot["patterns"]):
        errors.append("%d generated programs were rejected for other reasons: %s" % (len(other), other[:2]))
    cov = {"programs": tot["patterns"], "disagreements_checked": st.queries, "samples": samples or [{"note": "none"}],
           "explanation": "ONE rule of C17 has a solver-decidable core: a refutable pattern in `let` or `for` must be rejected. For each generated (type, pattern) pair z3 decides whether some value "
                          "of the type does not match the pattern; the real checker must reject `let p = x;` / `for p in [x, x] {..}` exactly in that case, and for accepted (irrefutable) patterns the "
                          "compiled circuit must bind the right components for all values.",
           **tot, "rejected_for_other_reasons": len(other), "solver": st.as_dict(),
           "not_covered": "all other static rules of C17 (type agreement, scoping, mutability, arity, recursion, unused/pub functions) are verdicts over program texts with no value dimension; the checker cannot be executed symbolically (DESIGN.md section 3), so they are outside this claim",
           "functions_encoded": ["check.rs Let / ForEachLoop pattern checking (verdict, run natively)", "compile.rs TypedPattern::compile for let / for (circuit encoded)"]}
    return {"violations": viol, "errors": errors, "inconclusive": st.unknown, "inconclusive_limit": max(2, st.queries // 50), "coverage": cov,
            "level": "translation_validation", "assumptions": ["pattern semantics as in C08", "patterns are seeded; values are symbolic"],
            "headline": "%d let/for patterns (%d refutable, %d irrefutable), %d compiled, %d queries (%d undecided)" % (
                tot["patterns"], tot["refutable"], tot["irrefutable"], tot["compiled"], st.queries, st.unknown)}
