"""Shared Kani runner: one `cargo kani` invocation with -j, terse output, per-harness timeout; output parser."""
import os, re, subprocess

VERIF = os.path.dirname(os.path.dirname(os.path.dirname(os.path.abspath(__file__))))
KANI_DIR = os.path.join(VERIF, "engine", "kani")
TARGET = os.path.join(VERIF, "build", "kani-target")


def kani(args, timeout):
    env = dict(os.environ)
    env["CARGO_NET_OFFLINE"] = "true"
    cmd = ["cargo", "kani", "--target-dir", TARGET, "--output-format", "terse"] + args
    try:
        p = subprocess.run(cmd, cwd=KANI_DIR, env=env, stdout=subprocess.PIPE, stderr=subprocess.STDOUT, text=True, timeout=timeout)
        return p.returncode, p.stdout
    except subprocess.TimeoutExpired as e:
        out = e.stdout or ""
        return 124, out if isinstance(out, str) else out.decode(errors="replace")


def parse(output):
    """-> {harness: {status, checks, failed, cover_sat, cover_total, time, failed_checks, timed_out}}"""
    res = {}
    cur = {}
    last_thread = "0"
    for ln in output.split("\n"):
        m = re.match(r"(?:Thread (\d+): )?Checking harness (\S+?)\.\.\.", ln)
        if m:
            t = m.group(1) or "0"
            cur[t] = m.group(2).split("::")[-1]
            res.setdefault(cur[t], {"status": "unknown", "failed_checks": []})
            last_thread = t
            continue
        m = re.match(r"Thread (\d+):\s*$", ln)
        if m:
            last_thread = m.group(1)
            continue
        h = cur.get(last_thread)
        if h is None:
            continue
        r = res[h]
        m = re.search(r"\*\* (\d+) of (\d+) failed", ln)
        if m:
            r["failed"], r["checks"] = int(m.group(1)), int(m.group(2))
        m = re.search(r"\*\* (\d+) of (\d+) cover properties satisfied", ln)
        if m:
            r["cover_sat"], r["cover_total"] = int(m.group(1)), int(m.group(2))
        m = re.match(r"Failed Checks: (.*)", ln)
        if m:
            r["failed_checks"].append(m.group(1)[:200])
        m = re.match(r"VERIFICATION:- (\w+)", ln)
        if m:
            r["status"] = m.group(1)
        if "CBMC timed out" in ln:
            r["timed_out"] = True
        m = re.match(r"Verification Time: ([\d.]+)s", ln)
        if m:
            r["time"] = float(m.group(1))
    return res


def playback_values(output):
    """byte lists of the first concrete-playback test that belongs to a FAILED check. Kani prints one test per
    check with a trace, and the witness of a satisfied `cover` comes first: that one is a benign run, not a
    counterexample, and must be skipped."""
    blocks = re.split(r"Concrete playback unit test for", output)[1:] or [output]
    chosen = None
    for b in blocks:
        m = re.search(r"Check for `(\w+)`", b)
        if m and m.group(1) == "cover":
            continue
        chosen = b
        break
    if chosen is None:
        chosen = blocks[0]
    vals = []
    for m in re.finditer(r"vec!\[([\d,\s]*)\],", chosen):
        body = m.group(1).strip()
        vals.append([int(x) for x in body.split(",") if x.strip()] if body else [])
    return vals


def le(b):
    return sum(x << (8 * i) for i, x in enumerate(b))


def playback_many(names, extra_args=(), timeout=1800, jobs=4):
    """concrete counterexamples of several failing harnesses -> {harness: [byte lists]}.
    --concrete-playback is incompatible with -j, so up to `jobs` separate cargo-kani processes run in
    parallel, each with its own target dir (build/kani-target-pb<k>, kept for incremental rebuilds)."""
    from concurrent.futures import ThreadPoolExecutor
    jobs = max(1, min(jobs, 4, len(names)))
    chunks = [names[k::jobs] for k in range(jobs)]

    def run(k):
        out = {}
        env = dict(os.environ)
        env["CARGO_NET_OFFLINE"] = "true"
        for n in chunks[k]:
            cmd = ["cargo", "kani", "--target-dir", TARGET + "-pb%d" % k, "--output-format", "terse"] + list(extra_args) + \
                  ["--harness", n, "-Z", "concrete-playback", "--concrete-playback=print"]
            try:
                p = subprocess.run(cmd, cwd=KANI_DIR, env=env, stdout=subprocess.PIPE, stderr=subprocess.STDOUT, text=True, timeout=timeout)
                out[n] = playback_values(p.stdout)
            except subprocess.TimeoutExpired:
                out[n] = []
        return out
    res = {}
    with ThreadPoolExecutor(jobs) as ex:
        for r in ex.map(run, range(jobs)):
            res.update(r)
    return res
