"""C11 -- Bristol export/import preserves the function (scoped: importer robustness on arbitrary text is not claimed)."""
import os, random
import z3
import common, enc, solve, tvcore
from lang import *
from drv import Circuit, unhx
import c10


def plan(ctx):
    tier, seed = ctx["tier"], ctx["seed"]
    items = []
    pools = [("general", 120), ("panic", 40), ("mutation", 60)] if tier == "quick" else \
        [("general", 600), ("panic", 200), ("mutation", 300), ("wide", 300)]
    for profile, n in pools:
        for i in range(0, n, 10):
            items.append({"kind": "programs", "profile": profile, "seeds": [seed * 100000 + 90000 + i + k for k in range(10)],
                          "cap": 20.0 if tier == "quick" else 120.0})
    items.append({"kind": "templates", "cap": 20.0})
    for i in range(20 if tier == "quick" else 200):
        items.append({"kind": "random", "seed": seed * 1000 + i, "count": 30, "cap": 20.0})
    return items


def templates():
    out = []
    for ty in (U8, I16, BOOL):
        x = Var("x", ty)
        one = Lit(ty, 1)
        y = Bin("^", x, one)
        # repeated outputs
        out.append(Program([FnDef("main", [("x", ty, False)], TTup([ty, ty]), Block([Let(PVar("y"), y)], TupLit([Var("y", ty), Var("y", ty)])), pub=True)]))
        # three copies and a constant
        out.append(Program([FnDef("main", [("x", ty, False)], TTup([ty, ty, ty, ty]), Block([Let(PVar("y"), y)], TupLit([Var("y", ty), one, Var("y", ty), Var("y", ty)])), pub=True)]))
        # constant outputs only
        out.append(Program([FnDef("main", [("x", ty, False)], TTup([ty, ty]), Block([], TupLit([one, Lit(ty, 0)])), pub=True)]))
        # output that is an input wire (export must refuse, not mis-export)
        out.append(Program([FnDef("main", [("x", ty, False)], ty, Block([], x), pub=True)]))
    return out


def parse_bristol(text):
    """own reader of the exported text -> (inputs, gates [(kind, ins, out)], n_out, total_wires, problems)"""
    problems = []
    lines = text.split("\n")
    try:
        ng, nw = [int(x) for x in lines[0].split()]
        l1 = [int(x) for x in lines[1].split()]
        l2 = [int(x) for x in lines[2].split()]
    except Exception as e:
        return None, None, None, None, ["header not parseable: %s" % e]
    if l1[0] != len(l1) - 1:
        problems.append("declared %d input values but %d lengths" % (l1[0], len(l1) - 1))
    inputs = l1[1:]
    if l2[0] != len(l2) - 1:
        problems.append("declared %d output values but %d lengths" % (l2[0], len(l2) - 1))
    n_out = sum(l2[1:])
    gates = []
    for ln in lines[3:]:
        p = ln.split()
        if not p:
            continue
        try:
            ni, no = int(p[0]), int(p[1])
            ins = [int(x) for x in p[2:2 + ni]]
            outw = int(p[2 + ni])
            kind = p[3 + ni]
        except Exception as e:
            problems.append("gate line not parseable: %r" % ln)
            continue
        if no != 1 or len(p) != ni + 4 or kind not in ("XOR", "AND", "INV") or (kind == "INV") != (ni == 1):
            problems.append("malformed gate line %r" % ln)
        gates.append((kind, ins, outw))
    if len(gates) != ng:
        problems.append("header declares %d gates, file has %d" % (ng, len(gates)))
    if sum(inputs) + len(gates) != nw:
        problems.append("header declares %d wires, inputs + gates = %d" % (nw, sum(inputs) + len(gates)))
    return inputs, gates, n_out, nw, problems


def encode_bristol(inputs_sizes, gates, n_out, nw, inputs):
    problems = []
    w = {}
    for i, b in enumerate(inputs.bits):
        w[i] = b
    bld = enc._Builder()
    for kind, ins, outw in gates:
        for x in ins:
            if x not in w:
                problems.append("wire %d used before it is assigned" % x)
                w[x] = z3.BoolVal(False)
        if outw in w:
            problems.append("wire %d assigned more than once (or is an input)" % outw)
        if outw >= nw:
            problems.append("wire %d out of range" % outw)
        if kind == "XOR":
            w[outw] = bld.xor(w[ins[0]], w[ins[1]])
        elif kind == "AND":
            w[outw] = bld.and_(w[ins[0]], w[ins[1]])
        else:
            w[outw] = bld.nt(w[ins[0]])
    outs = []
    for k in range(n_out):
        idx = nw - n_out + k
        if idx not in w:
            problems.append("output wire %d is never assigned" % idx)
            outs.append(z3.BoolVal(False))
        else:
            outs.append(w[idx])
    return outs, problems


def check_circuit(drv, circ, cid, label, src, cap, st, out, tmp):
    """circ: drv.Circuit (with >= 161 outputs). Export with the real format_as_bristol, re-import with the real
    bristol_to_garble, and also read the exported text with an independent reader."""
    n_in = circ.n_inputs
    value_outs = circ.outputs[enc.PANIC_BITS:]
    r = drv.req("bristol", "c", circ.to_text(), tmp) if cid is None else drv.req("bristol", cid, tmp)
    out["circuits"] += 1
    has_input_output = any(o < n_in for o in value_outs)
    rep = {"source": src, "circuit": circ.to_text()[:3000], "label": label}
    if r[0] == "err" and r[1] == "export":
        msg = unhx(r[2])
        if "OutputWireIsInput" in msg and has_input_output:
            out["refused"] += 1
            return
        out["violations"].append({"key": "bristol-export-error", "text": "export failed: %s (%s)" % (msg, label), "replay": rep})
        return
    if has_input_output:
        out["violations"].append({"key": "bristol-input-output", "text": "circuit with an input wire as output was exported instead of refused (%s)" % label, "replay": rep})
        return
    if r[0] == "panic":
        out["violations"].append({"key": "bristol-panic", "text": "export/import panicked: %s (%s)" % (unhx(r[1]), label), "replay": rep})
        return
    if r[0] == "err":
        out["violations"].append({"key": "bristol-reimport-error", "text": "re-import of our own export failed: %s (%s)" % (unhx(r[2]), label),
                                  "replay": {**rep, "exported": unhx(r[3])[:3000]}})
        return
    text = unhx(r[1])
    back = Circuit.parse(r[2])
    rep["exported"] = text[:3000]
    inputs = enc.Inputs(circ.inputs)
    orig = enc.encode_ssa(circ, inputs)[enc.PANIC_BITS:]
    # (1) independent reader: well-formedness + function
    ins, gates, n_out, nw, problems = parse_bristol(text)
    if ins is None:
        out["violations"].append({"key": "bristol-malformed", "text": "; ".join(problems), "replay": rep})
        return
    if list(ins) != list(circ.inputs):
        problems.append("input line %s does not match the parties %s" % (ins, circ.inputs))
    if n_out != len(value_outs):
        problems.append("declares %d outputs for %d non-panic output bits" % (n_out, len(value_outs)))
    mine, p2 = encode_bristol(ins, gates, n_out, nw, inputs) if list(ins) == list(circ.inputs) else ([], [])
    problems += p2
    for p in problems[:3]:
        out["violations"].append({"key": "bristol-malformed", "text": "exported text is not well-formed Bristol: %s (%s)" % (p, label), "replay": rep})
    pairs = []
    if len(mine) == len(orig):
        pairs += [(a, b, "text") for a, b in zip(orig, mine)]
    # (2) real re-import
    if list(back.inputs) != list(circ.inputs) or len(back.outputs) != len(value_outs):
        out["violations"].append({"key": "bristol-roundtrip-shape", "text": "re-imported circuit has parties %s / %d outputs, original %s / %d (%s)" % (
            back.inputs, len(back.outputs), circ.inputs, len(value_outs), label), "replay": rep})
    else:
        try:
            re_outs = enc.encode_ssa(back, inputs)
            pairs += [(a, b, "reimport") for a, b in zip(orig, re_outs)]
        except IndexError:
            out["violations"].append({"key": "bristol-roundtrip-shape", "text": "re-imported circuit refers to undefined wires (%s)" % label, "replay": rep})
    d = [a != b for a, b, _ in pairs if not a.eq(b)]
    if not d:
        st.queries += 1
        st.unsat += 1
        return
    verdict, model, _, _ = solve.decide([z3.Or(*d)], cap, st)
    if verdict == "sat":
        parties = inputs.party_values(model)
        a = drv.evalc(circ.to_text(), parties)
        b = drv.evalc(back.to_text(), parties)
        pr = tvcore.input_pairs(inputs, parties)
        m = [int(bool(tvcore.concrete(x, pr))) for x in mine] if mine else None
        det = {**rep, "inputs": tvcore.bits_str(parties), "original_value_bits": str(a[enc.PANIC_BITS:]) if isinstance(a, list) else str(a),
               "reimported_output": str(b), "exported_text_semantics": str(m)}
        if isinstance(a, list) and (a[enc.PANIC_BITS:] != b or (m is not None and a[enc.PANIC_BITS:] != m)):
            out["violations"].append({"key": "bristol-function", "text": "Bristol round trip changes the function on inputs %s: original %s, re-imported %s, exported text %s (%s)" % (
                det["inputs"], det["original_value_bits"], b, m, label), "replay": det})
        else:
            out["nonrepro"].append(det)


def random_exportable(rng):
    c = c10.random_circuit(rng)
    n_in = c.n_inputs
    nw = n_in + len(c.gates)
    outs = [o for o in c.outputs if o >= n_in] or [nw - 1]
    if rng.random() < 0.4:
        outs.append(outs[0])
    if rng.random() < 0.2:
        outs.append(outs[-1])
    prefix = [nw - 1] * enc.PANIC_BITS
    return Circuit(c.inputs, c.gates, prefix + outs)


def work(item, drv):
    st = solve.Stats()
    out = {"item": item, "violations": [], "nonrepro": [], "circuits": 0, "refused": 0, "samples": [], "gates": 0}
    tmp = os.path.join(os.environ.get("VERIF_TMP", "/verif/build/tmp"), "bristol-%d.txt" % os.getpid())
    kind = item["kind"]
    if kind in ("programs", "templates"):
        progs = [common.make_program(item["profile"], s) for s in item["seeds"]] if kind == "programs" else templates()
        for prog in progs:
            src = render(prog)
            r = drv.compile(src, dedup=True)
            if r[0] != "ok":
                continue
            cid, circ = r[1], r[2]
            try:
                check_circuit(drv, circ, cid, kind, src, item["cap"], st, out, tmp)
                out["gates"] += len(circ.gates)
                if len(out["samples"]) < 1 and len(circ.gates) > 20:
                    out["samples"].append({"kind": kind, "gates": len(circ.gates), "source": src[:800]})
            finally:
                drv.drop(cid)
    else:
        rng = random.Random(item["seed"])
        for _ in range(item["count"]):
            c = random_exportable(rng)
            check_circuit(drv, c, None, "random gate list", None, item["cap"], st, out, tmp)
            if not out["samples"]:
                out["samples"].append({"kind": "random gate list with repeated outputs", "circuit": c.to_text()[:500]})
    out["stats"] = st.as_dict()
    return out


def summarize(ctx, items, results):
    st = solve.Stats()
    viol, errors, samples = [], [], []
    circuits = refused = gates = 0
    for r in results:
        if "error" in r:
            errors.append("worker failure on %s: %s %s" % (str(r["item"])[:100], r["error"], r.get("trace", "")[-400:]))
            continue
        sd = r["stats"]
        st.queries += sd["queries"]; st.unsat += sd["unsat"]; st.sat += sd["sat"]; st.unknown += sd["inconclusive"]; st.z3_s += sd["z3_seconds"]; st.kissat_s += sd["kissat_seconds"]
        viol += r["violations"]
        circuits += r["circuits"]; refused += r["refused"]; gates += r["gates"]
        for d in r["nonrepro"]:
            errors.append("counterexample did not reproduce natively: %s" % str(d)[:300])
        if r["samples"] and sum(1 for s in samples if s.get("kind") == r["samples"][0].get("kind")) < 2:
            samples += r["samples"][:1]
    cov = {"programs": circuits, "disagreements_checked": st.queries, "samples": samples,
           "explanation": "Each circuit is exported by the real format_as_bristol and re-imported by the real bristol_to_garble; the re-imported circuit AND an independent reading of the exported "
                          "text (own Bristol reader: header counts, single assignment before use, outputs = last wires in order) are mitered against the original non-panic outputs for ALL inputs. "
                          "Circuits with an input wire among the outputs must be refused with OutputWireIsInput.",
           "circuits_exported": circuits - refused, "refused_input_outputs": refused, "gates_encoded": gates, "solver": st.as_dict(),
           "not_covered": "importing arbitrary / malformed text never panics (File/BufReader code, text input: not encodable within reach, see DESIGN.md)",
           "functions_encoded": ["convert.rs Circuit::format_as_bristol", "convert.rs Circuit::bristol_to_garble"]}
    return {"violations": viol, "errors": errors, "inconclusive": st.unknown, "inconclusive_limit": max(2, st.queries // 50), "coverage": cov,
            "level": "translation_validation",
            "assumptions": ["circuits are compiler outputs of the seeded generator, fixed templates with repeated/constant/input outputs, and seeded gate lists with repeated outputs", "z3 decides each miter"],
            "headline": "%d circuits (%d refused as input-outputs), %d queries (%d unsat, %d sat, %d undecided)" % (circuits, refused, st.queries, st.unsat, st.sat, st.unknown)}
