"""C05 -- accepted programs compile to valid circuits whose I/O shape matches their types (scoped:
a fixed, id-keyed list of templates around integer-literal inference, zero-sized types and
aggregate shapes; each in a de-annotated and a fully annotated form)."""
import random
import z3
import common, enc, ref, solve, tvcore
from lang import *

TYPES = [U8, U16, U32, U64, USIZE, I8, I16, I32, I64]


def L(ty, v, s):
    return Lit(ty, v, suffix=s)


def main_fn(params, body_stmts, e, structs=(), enums=(), fns=()):
    return Program(list(fns) + [FnDef("main", params, e.ty, Block(body_stmts, e), pub=True)], list(structs), list(enums))


def families():
    """-> list of (family id, builder(T, annotated) -> Program or None, needs_signed)"""
    fam = []
    x = lambda T: Var("x", T)
    P = lambda T: [("x", T, False), ("c", BOOL, False)]
    c = Var("c", BOOL)

    fam.append(("operand-literal", lambda T, a: main_fn(P(T), [], Bin("+", x(T), L(T, 1, a)))))
    fam.append(("literal-operand", lambda T, a: main_fn(P(T), [], Bin("-", L(T, 100, a), x(T)))))
    fam.append(("return-literal", lambda T, a: main_fn(P(T), [], L(T, 5, a))))
    fam.append(("let-literal", lambda T, a: main_fn(P(T), [Let(PVar("y"), L(T, 5, a), annot=T if a else None)], Bin("+", Var("y", T), x(T)))))
    fam.append(("let-let-literal", lambda T, a: main_fn(P(T), [Let(PVar("y"), L(T, 5, a), annot=T if a else None), Let(PVar("z"), Var("y", T), annot=T if a else None)],
                                                         Bin("+", Var("z", T), x(T)))))
    fam.append(("let-annotated-literal", lambda T, a: main_fn(P(T), [Let(PVar("y"), L(T, 5, a), annot=T)], Bin("+", Var("y", T), x(T)))))
    fam.append(("letmut-literal", lambda T, a: main_fn(P(T), [LetMut("y", L(T, 5, a), annot=T if a else None), Assign("y", T, [], x(T), "+")], Var("y", T))))
    fam.append(("letmut-annotated-literal", lambda T, a: main_fn(P(T), [LetMut("y", L(T, 5, a), annot=T), Assign("y", T, [], x(T), "+")], Var("y", T))))
    fam.append(("tuple-literal", lambda T, a: main_fn(P(T), [Let(PVar("t"), TupLit([L(T, 5, a), Lit(BOOL, 1)]))], Bin("+", TupGet(Var("t", TTup([T, BOOL])), 0), x(T)))))
    fam.append(("tuple-destructure", lambda T, a: main_fn(P(T), [Let(PTup([PVar("p"), PVar("q")]), TupLit([L(T, 5, a), L(T, 6, a)]))], Bin("+", Bin("+", Var("p", T), x(T)), Var("q", T)))))
    fam.append(("if-literal", lambda T, a: main_fn(P(T), [Let(PVar("y"), If(c, Block([], L(T, 1, a)), Block([], L(T, 2, a))), annot=T if a else None)], Bin("+", Var("y", T), x(T)))))
    fam.append(("if-literal-operand", lambda T, a: main_fn(P(T), [], Bin("+", x(T), If(c, Block([], L(T, 1, a)), Block([], L(T, 2, a)))))))
    fam.append(("match-literal", lambda T, a: main_fn(P(T), [Let(PVar("y"), Match(c, [(PLit(BOOL, 1), L(T, 1, a)), (PLit(BOOL, 0), L(T, 2, a))], T), annot=T if a else None)],
                                                       Bin("+", x(T), Var("y", T)))))
    fam.append(("match-return", lambda T, a: main_fn(P(T), [], Match(c, [(PLit(BOOL, 1), L(T, 1, a)), (PLit(BOOL, 0), x(T))], T))))
    fam.append(("block-literal", lambda T, a: main_fn(P(T), [Let(PVar("y"), Block([Let(PVar("u"), Lit(BOOL, 1))], L(T, 7, a)), annot=T if a else None)], Bin("+", Var("y", T), x(T)))))
    fam.append(("array-repeat-return", lambda T, a: main_fn(P(T), [], ArrRep(L(T, 1, a), 2))))
    fam.append(("array-literal-return", lambda T, a: main_fn(P(T), [], ArrLit([L(T, 1, a), L(T, 2, a)]))))
    fam.append(("array-literal-mixed", lambda T, a: main_fn(P(T), [], ArrLit([L(T, 1, a), x(T)]))))
    # literal and typed elements mixed in one aggregate / branch that is bound without an annotation: the typed
    # element fixes the type of every literal next to it, whatever its position
    A2 = lambda T: Var("arr", TArr(T, 2))
    A3 = lambda T: Var("arr", TArr(T, 3))
    fam.append(("array-let-mixed-first", lambda T, a: main_fn(P(T), [Let(PVar("arr"), ArrLit([L(T, 1, a), x(T)]), annot=TArr(T, 2) if a else None)], A2(T))))
    fam.append(("array-let-mixed-last", lambda T, a: main_fn(P(T), [Let(PVar("arr"), ArrLit([x(T), L(T, 1, a)]), annot=TArr(T, 2) if a else None)], A2(T))))
    fam.append(("array-let-mixed-middle", lambda T, a: main_fn(P(T), [Let(PVar("arr"), ArrLit([L(T, 1, a), x(T), L(T, 2, a)]), annot=TArr(T, 3) if a else None)], A3(T))))
    fam.append(("array-letmut-mixed-first", lambda T, a: main_fn(P(T), [LetMut("arr", ArrLit([L(T, 1, a), x(T)]), annot=TArr(T, 2) if a else None), Assign("arr", TArr(T, 2), [("idx", Lit(USIZE, 1, suffix=a))], x(T), "^")], A2(T))))
    fam.append(("array-mixed-first-index", lambda T, a: main_fn(P(T), [], Bin("+", Index(ArrLit([L(T, 1, a), x(T)]), Lit(USIZE, 0, suffix=a)), x(T)))))
    fam.append(("if-let-mixed", lambda T, a: main_fn(P(T), [Let(PVar("y"), If(c, Block([], L(T, 1, a)), Block([], x(T))), annot=T if a else None)], Bin("+", Var("y", T), x(T)))))
    fam.append(("if-let-mixed-else", lambda T, a: main_fn(P(T), [Let(PVar("y"), If(c, Block([], x(T)), Block([], L(T, 1, a))), annot=T if a else None)], Bin("+", Var("y", T), x(T)))))
    fam.append(("match-let-mixed", lambda T, a: main_fn(P(T), [Let(PVar("y"), Match(c, [(PLit(BOOL, 1), L(T, 1, a)), (PLit(BOOL, 0), x(T))], T), annot=T if a else None)], Bin("+", Var("y", T), x(T)))))
    fam.append(("tuple-of-arrays-mixed", lambda T, a: main_fn(P(T), [Let(PVar("t"), TupLit([ArrLit([L(T, 1, a), x(T)]), Lit(BOOL, 1)]))], TupGet(Var("t", TTup([TArr(T, 2), BOOL])), 0))))
    fam.append(("array-let-index", lambda T, a: main_fn(P(T), [Let(PVar("arr"), ArrLit([L(T, 1, a), L(T, 2, a)]), annot=TArr(T, 2) if a else None)],
                                                         Bin("+", Index(Var("arr", TArr(T, 2)), Lit(USIZE, 0, suffix=a)), x(T)))))
    fam.append(("array-repeat-let", lambda T, a: main_fn(P(T), [Let(PVar("arr"), ArrRep(L(T, 3, a), 3), annot=TArr(T, 3) if a else None)],
                                                          Bin("+", Index(Var("arr", TArr(T, 3)), Lit(USIZE, 2, suffix=a)), x(T)))))
    fam.append(("index-let-literal", lambda T, a: main_fn(P(T), [Let(PVar("i"), Lit(USIZE, 1, suffix=a), annot=USIZE if a else None)], Index(ArrLit([x(T), x(T)]), Var("i", USIZE)))))
    fam.append(("shift-literal", lambda T, a: main_fn(P(T), [], Bin("<<", x(T), Lit(U8, 1, suffix=a)))))
    fam.append(("shift-let-literal", lambda T, a: main_fn(P(T), [Let(PVar("s"), Lit(U8, 1, suffix=a), annot=U8 if a else None)], Bin(">>", x(T), Var("s", U8)))))
    fam.append(("compare-literal", lambda T, a: main_fn(P(T), [], Bin("<", x(T), L(T, 5, a)))))
    fam.append(("eq-let-literal", lambda T, a: main_fn(P(T), [Let(PVar("y"), L(T, 5, a), annot=T if a else None)], Bin("==", Var("y", T), x(T)))))
    fam.append(("call-arg-literal", lambda T, a: main_fn(P(T), [], Bin("+", Call("f", [L(T, 5, a)], T), x(T)),
                                                          fns=[FnDef("f", [("p", T, False)], T, Block([], Bin("^", Var("p", T), L(T, 1, True))))])))
    fam.append(("call-let-arg", lambda T, a: main_fn(P(T), [Let(PVar("y"), L(T, 5, a), annot=T if a else None)], Bin("+", Call("f", [Var("y", T)], T), x(T)),
                                                      fns=[FnDef("f", [("p", T, False)], T, Block([], Bin("^", Var("p", T), L(T, 1, True))))])))

    def struct_lit(T, a):
        S = TStruct("S", [("a", T), ("b", BOOL)])
        return main_fn(P(T), [Let(PVar("s"), StructLit(S, [("a", L(T, 5, a)), ("b", Lit(BOOL, 1))]))], Bin("+", x(T), Cast(Cast(Var("s", S), S) if False else Var("s", S), S) if False else Bin("+", x(T), L(T, 0, True))) if False else
                       TupLit([Var("s", S), x(T)]), structs=[S])
    fam.append(("struct-field-literal", struct_lit))

    def enum_lit(T, a):
        E = TEnum("E", [("A", []), ("B", [T])])
        return main_fn(P(T), [], Match(EnumLit(E, "B", [L(T, 5, a)]), [(PEnum(E, "B", [PVar("v")]), Bin("+", Var("v", T), x(T))), (PEnum(E, "A", []), x(T))], T), enums=[E])
    fam.append(("enum-payload-literal", enum_lit))
    fam.append(("fn-return-literal", lambda T, a: main_fn(P(T), [], Bin("+", Call("f", [x(T)], T), x(T)),
                                                          fns=[FnDef("f", [("p", T, False)], T, Block([Let(PVar("q"), Var("p", T))], L(T, 5, a)))])))
    fam.append(("nested-tuple-literal", lambda T, a: main_fn(P(T), [Let(PVar("t"), TupLit([TupLit([L(T, 5, a), L(T, 6, a)]), Lit(BOOL, 1)]))],
                                                             Bin("+", TupGet(TupGet(Var("t", TTup([TTup([T, T]), BOOL])), 0), 1), x(T)))))
    fam.append(("array-of-tuples-literal", lambda T, a: main_fn(P(T), [Let(PVar("arr"), ArrLit([TupLit([L(T, 1, a), Lit(BOOL, 1)]), TupLit([L(T, 2, a), Lit(BOOL, 0)])]))],
                                                                Bin("+", TupGet(Index(Var("arr", TArr(TTup([T, BOOL]), 2)), Lit(USIZE, 1, suffix=a)), 0), x(T)))))

    def struct_let_field(T, a):
        S = TStruct("S", [("a", T), ("b", BOOL)])
        return main_fn(P(T), [Let(PVar("v"), L(T, 5, a), annot=T if a else None), Let(PVar("s"), StructLit(S, [("a", Var("v", T)), ("b", Lit(BOOL, 1))]))],
                       Bin("+", x(T), Var("v", T)), structs=[S])
    fam.append(("struct-let-field", struct_let_field))
    fam.append(("loop-literal-array", lambda T, a: main_fn(P(T), [LetMut("acc", x(T)), For(PVar("i"), ArrLit([L(T, 1, a), L(T, 2, a), L(T, 3, a)]), [Assign("acc", T, [], Var("i", T), "^")])], Var("acc", T))))
    fam.append(("assign-literal", lambda T, a: main_fn(P(T), [LetMut("y", x(T)), Assign("y", T, [], L(T, 7, a))], Bin("+", Var("y", T), x(T)))))
    fam.append(("opassign-literal", lambda T, a: main_fn(P(T), [LetMut("y", x(T)), Assign("y", T, [], L(T, 7, a), "^")], Var("y", T))))
    fam.append(("range-loop", lambda T, a: None if T.signed else main_fn(P(T), [LetMut("acc", x(T)), For(PVar("i"), Range(0, 3, T, suffix=a), [Assign("acc", T, [], Var("i", T), "^")])], Var("acc", T))))
    fam.append(("range-return", lambda T, a: None if T.signed else main_fn(P(T), [], Range(2, 5, T, suffix=a))))
    fam.append(("neg-literal", lambda T, a: main_fn(P(T), [Let(PVar("y"), L(T, -5, a), annot=T if a else None)], Bin("+", Var("y", T), x(T))) if T.signed else None))
    # unary operators applied to expressions built only from unsuffixed literals: the expected type has to reach the operand
    fam.append(("neg-neg-literal", lambda T, a: main_fn(P(T), [], Un("-", L(T, -3, a))) if T.signed else None))
    fam.append(("neg-neg-literal-operand", lambda T, a: main_fn(P(T), [], Bin("+", x(T), Un("-", L(T, -3, a)))) if T.signed else None))
    fam.append(("neg-if-literal", lambda T, a: main_fn(P(T), [], Un("-", If(c, Block([], L(T, -1, a)), Block([], L(T, -2, a))))) if T.signed else None))
    fam.append(("neg-sum-literal", lambda T, a: main_fn(P(T), [], Un("-", Bin("-", L(T, -4, a), L(T, 1, a)))) if T.signed else None))
    fam.append(("not-literal", lambda T, a: main_fn(P(T), [], Un("!", L(T, 5, a)))))
    fam.append(("not-literal-operand", lambda T, a: main_fn(P(T), [], Bin("^", x(T), Un("!", L(T, 5, a))))))
    fam.append(("neg-literal-operand", lambda T, a: main_fn(P(T), [], Bin("*", x(T), L(T, -1, a))) if T.signed else None))
    fam.append(("pattern-literal", lambda T, a: main_fn(P(T), [], Match(x(T), [(PLit(T, 0, suffix=a), L(T, 1, a)), (PRange(T, 1, 9, True, suffix=a), L(T, 2, a)), (PVar("y"), Var("y", T))], T))))
    fam.append(("cast-literal", lambda T, a: main_fn(P(T), [], Bin("+", Cast(L(I32, 5, a), T) if a else Cast(L(I32, 5, False), T), x(T)))))
    return fam


def zero_sized():
    """(id, source, expectation) -- zero-sized parameter / result / element types"""
    Z = []
    Z.append(("zs-unit-param", "pub fn main(x: ()) -> u8 {\n    1u8\n}\n"))
    Z.append(("zs-empty-array-param", "pub fn main(x: [u8; 0]) -> u8 {\n    1u8\n}\n"))
    Z.append(("zs-unit-second-param", "pub fn main(x: u8, y: ()) -> u8 {\n    x\n}\n"))
    Z.append(("zs-unit-result", "pub fn main(x: u8) -> () {\n    let y = x;\n}\n"))
    Z.append(("zs-empty-array-result", "pub fn main(x: u8) -> [u8; 0] {\n    let a: [u8; 0] = [x; 0];\n    a\n}\n"))
    Z.append(("zs-tuple-with-unit", "pub fn main(x: u8) -> (u8, ()) {\n    (x, ())\n}\n"))
    Z.append(("zs-unit-enum-param", "enum E { A }\npub fn main(x: u8, e: E) -> u8 {\n    match e {\n        E::A => x,\n    }\n}\n"))
    Z.append(("zs-array-of-unit-index", "pub fn main(x: u8) -> u8 {\n    let a = [(); 2];\n    let u = a[0];\n    x\n}\n"))
    Z.append(("zs-array-of-unit-assign", "enum E { A }\npub fn main(x: u8) -> u8 {\n    let mut a = [E::A; 2];\n    a[1] = E::A;\n    x\n}\n"))
    Z.append(("zs-empty-struct", "struct Z {}\npub fn main(x: u8) -> u8 {\n    let z = Z {};\n    x\n}\n"))
    Z.append(("zs-empty-array-index", "pub fn main(x: u8, i: usize) -> u8 {\n    let a: [u8; 0] = [x; 0];\n    a[i]\n}\n"))
    Z.append(("zs-empty-array-assign-tuple-field", "pub fn main(x: u8, i: usize) -> u8 {\n    let mut a = [(1u8, 2u8); 0];\n    a[i].0 = x;\n    x\n}\n"))
    Z.append(("zs-empty-array-assign-nested-index", "pub fn main(x: u8, i: usize) -> u8 {\n    let mut a = [[1u8, 2u8]; 0];\n    a[i][1] = x;\n    x\n}\n"))
    Z.append(("zs-empty-array-assign-struct-field", "struct P { p: u8, q: bool }\npub fn main(x: u8, i: usize) -> u8 {\n    let mut a = [P { p: 1u8, q: true }; 0];\n    a[i].p = x;\n    x\n}\n"))
    Z.append(("zs-empty-array-assign-flat", "pub fn main(x: u8, i: usize) -> u8 {\n    let mut a = [x; 0];\n    a[i] = x;\n    x\n}\n"))
    Z.append(("zs-empty-array-opassign", "pub fn main(x: u8, i: usize) -> u8 {\n    let mut a = [x; 0];\n    a[i] += x;\n    x\n}\n"))
    Z.append(("zs-single-empty-array-param", "pub fn main(x: [u8; 0]) -> bool {\n    true\n}\n"))
    return Z


def const_array_templates():
    """(id, builder() -> Program) : arrays whose size is a constant and whose elements are aggregates, in every annotation
    position (parameter, result, let, struct field, loop). Fully annotated: must be accepted, compiled and right."""
    S = TStruct("S", [("a", U8), ("b", BOOL)])
    E = TEnum("E", [("A", []), ("B", [U8])])
    T2 = TTup([U8, BOOL])
    out = []
    for n in (2, 3):
        consts = [("N", USIZE, "%dusize" % n)]
        for ename, et in (("struct", S), ("enum", E), ("tuple", T2), ("u16", U16)):
            structs = [S] if et is S else []
            enums = [E] if et is E else []
            at = TArrC(et, n, "N")
            xs, i, x = Var("xs", at), Var("i", USIZE), Var("x", et)

            def proj(e, et=et):
                if et is S:
                    return Field(e, "a")
                if et is E:
                    return Match(e, [(PEnum(E, "B", [PVar("v")]), Var("v", U8)), (PEnum(E, "A", []), Lit(U8, 7))], U8)
                if et is T2:
                    return TupGet(e, 0)
                return Cast(e, U8)

            def P(fns_main, structs=structs, enums=enums, consts=consts):
                return Program([fns_main], list(structs), list(enums), list(consts))
            tid = "const-array-%s-%d" % (ename, n)
            out.append((tid + ":identity", lambda xs=xs, at=at, P=P: P(FnDef("main", [("xs", at, False), ("i", USIZE, False)], at, Block([], xs), pub=True))))
            out.append((tid + ":index", lambda xs=xs, at=at, et=et, i=i, P=P: P(FnDef("main", [("xs", at, False), ("i", USIZE, False)], et, Block([], Index(xs, i)), pub=True))))
            out.append((tid + ":let-repeat", lambda x=x, at=at, et=et, n=n, P=P: P(FnDef("main", [("x", et, False), ("c", BOOL, False)], at,
                                                                                     Block([Let(PVar("ys"), ArrRep(x, n, size_src="N"), annot=at)], Var("ys", at)), pub=True))))
            out.append((tid + ":loop", lambda xs=xs, at=at, et=et, proj=proj, P=P: P(FnDef("main", [("xs", at, False), ("i", USIZE, False)], U8,
                                                                                      Block([LetMut("acc", Lit(U8, 0)), For(PVar("e"), xs, [Assign("acc", U8, [], proj(Var("e", et)), "^")])], Var("acc", U8)), pub=True))))
            W = TStruct("W", [("items", at), ("k", U8)])
            out.append((tid + ":field", lambda at=at, et=et, W=W, structs=structs, enums=enums, consts=consts: Program(
                [FnDef("main", [("w", W, False), ("i", USIZE, False)], et, Block([], Index(Field(Var("w", W), "items"), i)), pub=True)], list(structs) + [W], list(enums), list(consts))))
    return out


def plan(ctx):
    items = []
    for k, (tid, _) in enumerate(const_array_templates()):
        items.append({"kind": "ctarray", "index": k, "tid": tid, "cap": 20.0})
    fams = families()
    for k, (fid, _) in enumerate(fams):
        for T in TYPES:
            items.append({"kind": "infer", "family": k, "fid": fid, "ty": T.name, "cap": 20.0})
    for zid, src in zero_sized():
        items.append({"kind": "zero", "zid": zid, "src": src})
    return items


def ty_by_name(n):
    for t in TYPES:
        if t.name == n:
            return t


def work(item, drv):
    st = solve.Stats()
    out = {"item": item, "violations": [], "nonrepro": [], "results": [], "samples": [], "errors": []}
    rng = random.Random(7)
    if item["kind"] == "zero":
        src = "\n" + item["src"]
        tid = item["zid"]
        r = drv.compile(src, dedup=True)
        rec = {"id": tid, "status": r[0]}
        if r[0] == "panic":
            out["violations"].append({"key": "%s/compiler-panic" % tid, "text": "%s: accepted by the checker, compilation panics: %s" % (tid, r[1][:160]), "replay": {"source": src}})
        elif r[0] == "ok":
            cid, circ, validity = r[1], r[2], r[3]
            rec["validity"] = validity
            if validity != "valid":
                out["violations"].append({"key": "%s/invalid-circuit" % tid, "text": "%s: accepted and compiled, but the circuit fails its own validation: %s" % (tid, validity), "replay": {"source": src, "circuit": circ.to_text()[:500]}})
            else:
                # evaluating must work on the declared shape
                ev = drv.eval(cid, [[0] * n for n in circ.inputs])
                if ev is None:
                    out["violations"].append({"key": "%s/eval-fails" % tid, "text": "%s: valid circuit cannot be evaluated on inputs of the declared shape" % tid, "replay": {"source": src}})
            drv.drop(cid)
        elif r[0] == "err":
            rec["errors"] = str(r[2])[:200]
        else:
            out["violations"].append({"key": "%s/%s" % (tid, r[0]), "text": "%s: %s" % (tid, r[0]), "replay": {"source": src}})
        out["results"].append(rec)
        out["stats"] = st.as_dict()
        return out
    if item["kind"] == "ctarray":
        ctid, cbuild = const_array_templates()[item["index"]]
        variants = [(True, cbuild(), ctid + ":annotated")]
    else:
        fid, build = families()[item["family"]]
        T = ty_by_name(item["ty"])
        variants = [(a, build(T, a), "%s:%s:%s" % (fid, T.name, "annotated" if a else "inferred")) for a in (True, False)]
    for annotated, prog, tid in variants:
        if prog is None:
            continue
        if item["kind"] == "ctarray":
            n = int(prog.consts[0][2].replace("usize", ""))
            res = tvcore.analyze(drv, prog, dedup=True, cap=item["cap"], stats=st, rng=rng, vectors=2, consts="-", const_values={"N": (USIZE, z3.BitVecVal(n, 32))})
        else:
            res = tvcore.analyze(drv, prog, dedup=True, cap=item["cap"], stats=st, rng=rng, vectors=2)
        rec = {"id": tid, "status": res["status"], "verdicts": res["verdicts"]}
        out["results"].append(rec)
        rep = {"source": res["src"], "template": tid}
        if res["status"] == "rejected":
            rec["errors"] = str(res.get("errors"))[:200]
            if annotated:
                out["violations"].append({"key": "%s/rejected" % tid, "text": "%s: fully annotated well-typed program is rejected: %s" % (tid, rec["errors"]), "replay": rep})
            continue
        if res["status"] in ("compiler_panic", "compile_error", "timeout", "died"):
            out["violations"].append({"key": "%s/compiler-panic" % tid, "text": "%s: accepted by the checker, compilation fails: %s %s" % (tid, res["status"], str(res.get("panic") or res.get("errors"))[:200]), "replay": rep})
            continue
        if res["status"] == "shape":
            out["violations"].append({"key": "%s/shape" % tid, "text": "%s: accepted, but the circuit's I/O shape does not match the declared types: %s" % (tid, res["findings"][0].as_dict()["problems"]), "replay": rep})
            continue
        for f in res["findings"]:
            d = f.as_dict()
            if f.kind == "disagreement":
                out["violations"].append({"key": "%s/%s" % (tid, d["query"]), "text": "%s: accepted, circuit differs from the intended typing (%s query) on inputs %s" % (tid, d["query"], d["inputs"]), "replay": {**rep, **d}})
            else:
                out["nonrepro"].append(d)
        if not out["samples"] and not annotated:
            out["samples"].append({"template": tid, "status": res["status"], "verdicts": res["verdicts"], "source": res["src"]})
    out["stats"] = st.as_dict()
    return out


def summarize(ctx, items, results):
    st = solve.Stats()
    viol, errors, samples = [], [], []
    status = {}
    n_templates = 0
    rejected_inferred = []
    for r in results:
        if "error" in r:
            errors.append("worker failure on %s: %s %s" % (str(r["item"])[:100], r["error"], r.get("trace", "")[-600:]))
            continue
        sd = r["stats"]
        st.queries += sd["queries"]; st.unsat += sd["unsat"]; st.sat += sd["sat"]; st.unknown += sd["inconclusive"]; st.z3_s += sd["z3_seconds"]; st.kissat_s += sd["kissat_seconds"]
        viol += r["violations"]
        for rec in r["results"]:
            n_templates += 1
            status[rec["status"]] = status.get(rec["status"], 0) + 1
            if rec["status"] == "rejected" and rec["id"].endswith(":inferred"):
                rejected_inferred.append(rec["id"])
        for d in r["nonrepro"]:
            errors.append("counterexample did not reproduce natively: %s" % str(d)[:300])
        if len(samples) < 3:
            samples += r["samples"][:1]
    cov = {"programs": n_templates, "disagreements_checked": st.queries, "samples": samples or [{"note": "none"}],
           "explanation": "Fixed, id-keyed templates: %d inference families x 9 integer types, each fully annotated and with the literal suffixes / let annotations removed wherever the documented rules "
                          "still determine the type; plus zero-sized parameter / result / element types. Accepted => compilation must not panic, validate() must accept, parties and bit counts must equal "
                          "the declared parameter / return sizes, and the circuit must equal the reference with the INTENDED types for all inputs (value, panic-iff, location queries). A rejected annotated "
                          "template is a violation; a rejected de-annotated one is recorded only." % len(families()),
           "status_counts": status, "rejected_deannotated_templates": len(rejected_inferred), "rejected_deannotated_sample": rejected_inferred[:12], "solver": st.as_dict(),
           "not_covered": "'all programs the checker accepts' beyond this family; the checker itself is not executed symbolically (DESIGN.md section 3)",
           "functions_encoded": ["check.rs unify / constrain_type / check_or_constrain_* (verdict, natively)", "compile.rs literal lowering and size_in_bits_for_defs (circuit encoded)", "circuit.rs Circuit::validate"]}
    return {"violations": viol, "errors": errors, "inconclusive": st.unknown, "inconclusive_limit": max(2, st.queries // 50), "coverage": cov,
            "level": "translation_validation",
            "assumptions": ["intended type of an unsuffixed literal = the type Rust's inference assigns from the documented context (other operand, parameter, return type, annotated let, sibling element/arm, later use)"] + common.BASE_ASSUMPTIONS[:3],
            "headline": "%d templates %s, %d queries (%d undecided)" % (n_templates, status, st.queries, st.unknown)}
